/*
 * C08 (f): AEAD tag verification, whole decryption sequence at IR level:
 *   init, reset, aad_inject, flip, run(decrypt), check_tag
 * of GCM (-DMODE=1: src/aead/gcm.c + aes_ct CTR class + br_ghash_ctmul32),
 * CCM (-DMODE=2: src/aead/ccm.c + aes_ct CTR+CBC-MAC class) and
 * EAX (-DMODE=3: src/aead/eax.c + aes_ct CTR+CBC-MAC class).
 * Secret: key, nonce, AAD contents, ciphertext, the received tag (hence the
 * validity of the tag).  Public: all lengths, addresses.
 * The result of check_tag is returned to the caller (no branch inside the
 * translated code depends on it).
 */
#include "C08_rt.h"
#include "inner.h"
#include C08_GEN
#ifndef NB
#define NB 20
#endif
#ifndef AL
#define AL 7
#endif
#ifndef TL
#define TL 16
#endif
#define P(x) ((unsigned char *)(x))
static unsigned char key[16] __attribute__((aligned(16))), nonce[12] __attribute__((aligned(16)));
static unsigned char data[NB + 16] __attribute__((aligned(16))), aad[AL + 16] __attribute__((aligned(16))), tag[16] __attribute__((aligned(16)));
static uint32_t ret;
#if MODE == 1
static br_aes_ct_ctr_keys bc __attribute__((aligned(16)));
static br_gcm_context ac __attribute__((aligned(16)));
#elif MODE == 2
static br_aes_ct_ctrcbc_keys bc __attribute__((aligned(16)));
static br_ccm_context ac __attribute__((aligned(16)));
#else
static br_aes_ct_ctrcbc_keys bc __attribute__((aligned(16)));
static br_eax_context ac __attribute__((aligned(16)));
#endif

static void c08_public(void) { }
static void c08_secret(void)
{
	ND_BYTES(key, 16);
	ND_BYTES(nonce, 12);
	ND_BYTES(data, NB);
	ND_BYTES(aad, AL);
	ND_BYTES(tag, 16);
	ret = 0;
}
static void c08_call(void)
{
#if MODE == 1
	ir_br_aes_ct_ctr_init(P(&bc), key, 16);
	ir_br_gcm_init(P(&ac), P(&bc), ir_br_ghash_ctmul32);
	ir_br_gcm_reset(P(&ac), nonce, 12);
	ir_br_gcm_aad_inject(P(&ac), aad, AL);
	ir_br_gcm_flip(P(&ac));
	ir_br_gcm_run(P(&ac), 0, data, NB);
	ret = ir_br_gcm_check_tag_trunc(P(&ac), tag, TL);
#elif MODE == 2
	ir_br_aes_ct_ctrcbc_init(P(&bc), key, 16);
	ir_br_ccm_init(P(&ac), P(&bc));
	ret = ir_br_ccm_reset(P(&ac), nonce, 12, AL, NB, TL);
	ir_br_ccm_aad_inject(P(&ac), aad, AL);
	ir_br_ccm_flip(P(&ac));
	ir_br_ccm_run(P(&ac), 0, data, NB);
	ret += 2 * ir_br_ccm_check_tag(P(&ac), tag);
#else
	ir_br_aes_ct_ctrcbc_init(P(&bc), key, 16);
	ir_br_eax_init(P(&ac), P(&bc));
	ir_br_eax_reset(P(&ac), nonce, 12);
	ir_br_eax_aad_inject(P(&ac), aad, AL);
	ir_br_eax_flip(P(&ac));
	ir_br_eax_run(P(&ac), 0, data, NB);
	ret = ir_br_eax_check_tag_trunc(P(&ac), tag, TL);
#endif
}
#ifdef C08_TV
static void c08_call_real(void)
{
#if MODE == 1
	br_aes_ct_ctr_init(&bc, key, 16);
	br_gcm_init(&ac, &bc.vtable, br_ghash_ctmul32);
	br_gcm_reset(&ac, nonce, 12);
	br_gcm_aad_inject(&ac, aad, AL);
	br_gcm_flip(&ac);
	br_gcm_run(&ac, 0, data, NB);
	ret = br_gcm_check_tag_trunc(&ac, tag, TL);
#elif MODE == 2
	br_aes_ct_ctrcbc_init(&bc, key, 16);
	br_ccm_init(&ac, &bc.vtable);
	ret = br_ccm_reset(&ac, nonce, 12, AL, NB, TL);
	br_ccm_aad_inject(&ac, aad, AL);
	br_ccm_flip(&ac);
	br_ccm_run(&ac, 0, data, NB);
	ret += 2 * br_ccm_check_tag(&ac, tag);
#else
	br_aes_ct_ctrcbc_init(&bc, key, 16);
	br_eax_init(&ac, &bc.vtable);
	br_eax_reset(&ac, nonce, 12);
	br_eax_aad_inject(&ac, aad, AL);
	br_eax_flip(&ac);
	br_eax_run(&ac, 0, data, NB);
	ret = br_eax_check_tag_trunc(&ac, tag, TL);
#endif
}
static void c08_out(void) { C08_OUT(data, NB); C08_OUTV(ret); }
#endif
#include "C08_main.h"
