/*
 * C10.3b: EMSA-PSS (real src/rsa/rsa_pss_sig_pad.c, rsa_pss_sig_unpad.c,
 * real src/hash/mgf1.c) over two DIFFERENT stub hash classes (C10_stubs.h):
 * hf_data = c10_hash_b (8-byte output; the real pad code uses the H field
 * as an 8-byte scratch area, every real hash has >= 16), hf_mgf1 = c10_hash_a (4-byte output),
 * so that a mix-up of the two shows.
 *
 * Concrete per query: C10_NBITS (modulus bit length), C10_SALT (salt length),
 * C10_NLZ (leading zero bytes in the stored modulus, decode side).
 *
 * C10_MODE 0 (encode): message hash and salt (stub PRNG) symbolic.
 *   br_rsa_pss_sig_pad returns 0 exactly when emLen < hLen + sLen + 2, else 1;
 *   C10_RT=0: the output verifies under the RFC 8017 9.1.2 reference written
 *   in this file (own MGF1) and is numerically below 2^(NBITS-1);
 *   C10_RT=1: br_rsa_pss_sig_unpad accepts it (round trip).
 * C10_MODE 1 (decode): every byte of the block and of the message hash
 *   symbolic: br_rsa_pss_sig_unpad accepts <=> reference accepts (leading
 *   byte/top bits zero, trailer 0xBC, PS all zero, 0x01 separator, salt of
 *   the expected length, H == Hash(0^8 || mHash || salt)).
 * C10_MODE 2: all-zero modulus is refused.
 */
#include "common.h"
#include "C10_stubs.h"

#ifndef C10_NBITS
#define C10_NBITS 192
#endif
#ifndef C10_SALT
#define C10_SALT 3
#endif
#ifndef C10_NLZ
#define C10_NLZ 0
#endif
#ifndef C10_MODE
#define C10_MODE 0
#endif
#ifndef C10_RT
#define C10_RT 0
#endif

#define HF_DATA (&c10_hash_b)
#define HF_MGF  (&c10_hash_a)
#define HB C10_HB                               /* hLen of hf_data */
#define HA C10_HA                               /* hLen of hf_mgf1 */
#define XB ((C10_NBITS + 7) / 8)                /* modulus / block length in bytes */
#define EMBITS (C10_NBITS - 1)
#define EMLEN ((EMBITS + 7) / 8)
#define TOO_SHORT (EMLEN < HB + C10_SALT + 2)
#define DBL (EMLEN - HB - 1)
/* a byte whose bit length is ((NBITS-1) mod 8) + 1 */
#define TOPBYTE (0xD5 >> (7 - ((C10_NBITS - 1) & 7)))

/* RFC 8017 9.1.2 EMSA-PSS-VERIFY, on the XB-byte big-endian integer blk */
static int
ref_pss_verify(const unsigned char *blk, const unsigned char *mhash)
{
#if TOO_SHORT
	(void)blk; (void)mhash;
	return 0;
#else
	const unsigned char *em = blk + (XB - EMLEN);
	unsigned char db[DBL], h2[8], zeros[8];
	unsigned topmask = 0xFFu >> (8 * EMLEN - EMBITS);
	int ok = 1, i;

	/* I2OSP(m, emLen) must exist: the integer fits in emLen bytes */
	if (XB > EMLEN && blk[0] != 0) ok = 0;
	if (em[EMLEN - 1] != 0xBC) ok = 0;
	if (em[0] & ~topmask & 0xFF) ok = 0;
	for (i = 0; i < DBL; i++) db[i] = em[i];
	c10_ref_mgf1_xor(db, DBL, HF_MGF, HA, em + DBL, HB);
	db[0] &= topmask;
	for (i = 0; i < DBL - C10_SALT - 1; i++) if (db[i] != 0) ok = 0;
	if (db[DBL - C10_SALT - 1] != 0x01) ok = 0;
	for (i = 0; i < 8; i++) zeros[i] = 0;
	{
		br_hash_compat_context hc;
		const br_hash_class *hf = HF_DATA;
		hf->init(&hc.vtable);
		hf->update(&hc.vtable, zeros, 8);
		hf->update(&hc.vtable, mhash, HB);
		hf->update(&hc.vtable, db + DBL - C10_SALT, C10_SALT);
		hf->out(&hc.vtable, h2);
	}
	for (i = 0; i < HB; i++) if (h2[i] != em[DBL + i]) ok = 0;
	return ok;
#endif
}

int main(void)
{
	unsigned char mhash[HB], n[C10_NLZ + XB], x[XB + 1], x0[XB + 1];
	br_rsa_public_key pk;
	int i;

	ND_BYTES(mhash, HB);
	ND_BYTES(n, C10_NLZ + XB);
	for (i = 0; i < C10_NLZ; i++) n[i] = 0;
	n[C10_NLZ] = TOPBYTE;                     /* fixes the bit length at NBITS */
	pk.n = n; pk.nlen = C10_NLZ + XB; pk.e = 0; pk.elen = 0;
	for (i = 0; i < XB + 1; i++) x[i] = x0[i] = ND_U8();

#if C10_MODE == 0
	c10_rng rng;
	rng.vtable = &c10_rng_vtable; rng.ptr = 0;
	ND_BYTES(rng.pool, C10_RNG_MAX);

	uint32_t r = br_rsa_pss_sig_pad(&rng.vtable, HF_DATA, HF_MGF, mhash, C10_SALT, C10_NBITS, x);

	CHECK(r == (TOO_SHORT ? 0u : 1u), "pss_sig_pad returns 0 exactly when emLen < hLen + sLen + 2, else 1");
	CHECK(x[XB] == x0[XB], "pss_sig_pad writes nothing past the modulus length");
#if TOO_SHORT
	WITNESS_POINT("pss_sig_pad refuses");
#else
	CHECK(rng.ptr == C10_SALT, "pss_sig_pad draws exactly salt_len random bytes");
	for (i = 0; i < XB + 1; i++) x0[i] = x[i];
#if !C10_RT
	CHECK(ref_pss_verify(x0, mhash) == 1, "pss_sig_pad output verifies under the RFC 8017 9.1.2 reference");
	/* below 2^(NBITS-1), hence below the modulus */
	CHECK((x[0] >> ((C10_NBITS - 1) & 7)) == 0, "pss_sig_pad output is numerically below 2^(NBITS-1)");
#else
	CHECK(br_rsa_pss_sig_unpad(HF_DATA, HF_MGF, mhash, C10_SALT, &pk, x) == 1, "pss_sig_unpad accepts what pss_sig_pad produced");
#endif
	WITNESS_POINT("pss encode checked");
#endif
	return 0;

#elif C10_MODE == 1
	int ref = ref_pss_verify(x0, mhash);
	uint32_t r = br_rsa_pss_sig_unpad(HF_DATA, HF_MGF, mhash, C10_SALT, &pk, x);

	CHECK(r == 0 || r == 1, "pss_sig_unpad returns 0 or 1");
	CHECK((r == 1) == (ref == 1), "pss_sig_unpad accepts iff the block has the exact EMSA-PSS structure (reference)");
	CHECK(x[XB] == x0[XB], "pss_sig_unpad writes nothing past the block");
	if (r) {
#if !TOO_SHORT
		WITNESS_POINT("some block is accepted");
#endif
	} else {
		WITNESS_POINT("some block is rejected");
	}
	return 0;

#else
	for (i = 0; i < C10_NLZ + XB; i++) n[i] = 0;
	CHECK(br_rsa_pss_sig_unpad(HF_DATA, HF_MGF, mhash, C10_SALT, &pk, x) == 0, "pss_sig_unpad refuses an all-zero modulus");
	WITNESS_POINT("zero modulus refused");
	return 0;
#endif
}
