/*
 * C11.a: br_ecdsa_raw_to_asn1 (real src/ec/ecdsa_rta.c) on EVERY raw
 * signature of L bytes (L concrete per query, all bytes symbolic).
 *
 * MODE 0 (encoder): the output is byte-for-byte the DER encoding of
 *   SEQUENCE { INTEGER r, INTEGER s } built here from X.690 (minimal
 *   definite lengths, minimal two's-complement non-negative INTEGERs),
 *   r and s being the two halves read as unsigned big-endian; length grows
 *   by at most 9 (documented); the object handed over is exactly L+9 bytes
 *   (CBMC bounds checks); odd L => 0 and buffer unchanged.
 * MODE 1 (round trip, no reference): asn1_to_raw(raw_to_asn1(x)) gives back
 *   r and s right-aligned in two halves of the common minimal length; it is
 *   x itself whenever r or s has a non-zero first byte.
 */
#include "common.h"
#include "inner.h"

#ifndef L
#define L 8
#endif
#ifndef MODE
#define MODE 0
#endif
#define H (L / 2)
#define OUTMAX (L + 9)
#define HH (H > 0 ? H : 1)

/* number of significant bytes of the h-byte big-endian value v */
static size_t siglen(const unsigned char *v, size_t h)
{
	size_t m = 0;
	for (size_t j = 0; j < h; j++) {
		if (v[h - 1 - j] != 0) m = j + 1;
	}
	return m;
}

/* X.690 8.3: contents length of the minimal encoding of a non-negative value */
static size_t der_int_len(const unsigned char *v, size_t h)
{
	size_t m = siglen(v, h);
	size_t e = m;
	for (size_t k = 1; k <= h; k++) {
		if (m == k && v[h - k] >= 0x80) e = k + 1;   /* sign octet */
	}
	if (m == 0) e = 1;                                /* zero is 00 */
	return e;
}

int main(void)
{
	unsigned char in[L > 0 ? L : 1];
	ND_BYTES(in, L);

#if (L & 1)
	{
		unsigned char buf[OUTMAX];
		for (size_t i = 0; i < OUTMAX; i++) buf[i] = (i < L) ? in[i] : 0xA5;
		size_t ret = br_ecdsa_raw_to_asn1(buf, L);
		CHECK(ret == 0, "odd raw length is an error");
		for (size_t i = 0; i < OUTMAX; i++) CHECK(buf[i] == ((i < L) ? in[i] : 0xA5), "buffer unchanged on error");
		WITNESS_POINT("odd length rejected");
		return 0;
	}
#else
	const unsigned char *R = in, *S = in + H;
	size_t mr = siglen(R, H), ms = siglen(S, H);
	size_t m = mr > ms ? mr : ms;

#if MODE == 0
	unsigned char buf[OUTMAX], expd[OUTMAX];
	for (size_t i = 0; i < OUTMAX; i++) buf[i] = (i < L) ? in[i] : 0xA5;
	size_t ret = br_ecdsa_raw_to_asn1(buf, L);

	/* reference DER encoder (all indices constant inside the branches) */
	size_t er = der_int_len(R, H), es = der_int_len(S, H);
	size_t z = er + es + 4;
	size_t hdr = z < 0x80 ? 2 : 3;
	size_t elen = hdr + z;
	for (size_t i = 0; i < OUTMAX; i++) expd[i] = 0;
	expd[0] = 0x30;
	for (size_t h = 2; h <= 3; h++) {
		if (hdr != h) continue;
		if (h == 2) { expd[1] = (unsigned char)z; } else { expd[1] = 0x81; expd[2] = (unsigned char)z; }
		for (size_t a = 1; a <= H + 1; a++) {
			if (er != a) continue;
			expd[h] = 0x02;
			expd[h + 1] = (unsigned char)a;
			for (size_t j = 0; j < a; j++) {
				/* j-th content octet from the right = j-th octet of r from the right, 0 beyond */
				expd[h + 2 + a - 1 - j] = (j < H) ? R[H - 1 - j] : 0;
			}
			for (size_t b = 1; b <= H + 1; b++) {
				if (es != b) continue;
				size_t o = h + 2 + a;
				expd[o] = 0x02;
				expd[o + 1] = (unsigned char)b;
				for (size_t j = 0; j < b; j++) {
					expd[o + 2 + b - 1 - j] = (j < H) ? S[H - 1 - j] : 0;
				}
			}
		}
	}
#if L <= 242
	CHECK(ret != 0, "integers up to 125 content bytes are converted");
#endif
	if (ret != 0) {
		CHECK(ret == elen, "length is that of the DER encoding");
		CHECK(ret <= (size_t)L + 9, "grows by at most 9 bytes (documented)");
		size_t ix = ND_SIZE();   /* one symbolic index stands for every position */
		if (ix < OUTMAX) {
			if (ix < ret) {
				CHECK(buf[ix] == expd[ix], "output is the DER encoding of SEQUENCE{INTEGER r, INTEGER s}");
			} else if (ix >= L) {
				CHECK(buf[ix] == 0xA5, "nothing is written past the result");
			}
		}
		WITNESS_POINT("some raw signature converted");
#if L >= 4
		if (er == H + 1 && es < H) { WITNESS_POINT("sign octet added / leading zeros removed"); }
#endif
	} else {
		CHECK(er > 125 || es > 125, "error only for an oversized integer");
#if L > 242
		WITNESS_POINT("oversized integer rejected");
#endif
	}
	return 0;
#else
	/* round trip; asn1_to_raw wants a buffer of < 2 * its input length */
	unsigned char buf[2 * OUTMAX];
	for (size_t i = 0; i < 2 * OUTMAX; i++) buf[i] = (i < L) ? in[i] : 0xA5;
	size_t ret = br_ecdsa_raw_to_asn1(buf, L);
	CHECK(ret != 0 && ret <= (size_t)L + 9, "converted, grows by at most 9 bytes");
	size_t back = br_ecdsa_asn1_to_raw(buf, ret);
	CHECK(back == 2 * m, "round trip: length = 2 * max significant length (0 when r = s = 0)");
	size_t ix = ND_SIZE();
	if (back == 2 * m && ix < m) {
		CHECK(buf[ix] == R[H - m + ix], "round trip: first half is r right-aligned");
		CHECK(buf[m + ix] == S[H - m + ix], "round trip: second half is s right-aligned");
	}
#if L >= 2
	if (m == H) {
		if (ix < L) CHECK(buf[ix] == in[ix], "round trip is the identity when r or s has a non-zero first byte");
		WITNESS_POINT("identity round trip");
	}
	if (m < H) { WITNESS_POINT("shrinking round trip"); }
#else
	WITNESS_POINT("empty raw signature");
#endif
	return 0;
#endif
#endif
}
