/*
 * C03 (T0 part): native `compute-Finished-inner ( from_client prf_id -- )` of
 * ssl_hs_client.c (-DSIDE=0) / ssl_hs_server.c (-DSIDE=1).
 *
 * Claim (RFC 5246 7.4.9 / RFC 2246 7.4.9, ssl_hs_common.t0): verify_data =
 *   PRF(master_secret, finished_label, Hash(handshake_messages))[0..11]
 * with label "client finished" / "server finished" chosen by from_client, the
 * 48-byte master secret of the session, the transcript hash of the PRF's hash
 * function for TLS 1.2 (of MD5 || SHA-1, 36 bytes, before), written to the
 * first 12 bytes of the pad.
 * Seams (recording stubs): br_ssl_engine_get_PRF (returns the PRF for the id),
 * br_multihash_out (writes a symbolic digest of the documented length).
 */
#define T0N_PRE_INCLUDE "C05_t0f.h"
#ifndef SIDE
#define SIDE 0
#endif
#if SIDE == 0
#include "t0n_hsc.c"
#include "t0n_hsc_ops.h"
#else
#include "t0n_hss.c"
#include "t0n_hss_ops.h"
#endif

static T0N_CTXT *the;
static int prf_calls, get_calls, got_id;
static unsigned char digest[7][64];         /* symbolic digests per hash id */
static const unsigned char olen[7] = { 0, 16, 20, 28, 32, 48, 64 };
static int out_ids[4], out_n;
static int ok_dst, ok_len, ok_secret, ok_label_client, ok_label_server, ok_seednum, ok_seed;
static size_t seed_len;
static unsigned char seed_copy[64];

size_t
br_multihash_out(const br_multihash_context *ctx, int id, void *dst)
{
	size_t i;
	CHECK(ctx == &the->eng.mhash, "transcript hash taken from the engine's multihash context");
	CHECK(id >= 1 && id <= 6, "hash identifier in range");
	if (out_n < 4) out_ids[out_n] = id;
	out_n ++;
	for (i = 0; i < olen[id]; i ++) ((unsigned char *)dst)[i] = digest[id][i];
	return olen[id];
}
static int
streq(const char *a, const char *b)
{
	int i;
	for (i = 0; i < 16; i ++) { if (a[i] != b[i]) return 0; if (a[i] == 0) return 1; }
	return 0;
}
static void
rec_prf(void *dst, size_t len, const void *secret, size_t secret_len, const char *label,
	size_t seed_num, const br_tls_prf_seed_chunk *seed)
{
	size_t i;
	prf_calls ++;
	ok_dst = (dst == (void *)the->eng.pad);
	ok_len = (len == 12);
	ok_secret = (secret == (const void *)the->eng.session.master_secret && secret_len == 48);
	ok_label_client = streq(label, "client finished");
	ok_label_server = streq(label, "server finished");
	ok_seednum = (seed_num == 1);
	seed_len = seed[0].len;
	for (i = 0; i < 64; i ++) if (i < seed_len) seed_copy[i] = ((const unsigned char *)seed[0].data)[i];
	for (i = 0; i < 12; i ++) ((unsigned char *)dst)[i] = ND_U8();
}
br_tls_prf_impl
br_ssl_engine_get_PRF(br_ssl_engine_context *cc, int prf_id)
{
	CHECK(cc == &the->eng, "PRF requested from the engine");
	get_calls ++;
	got_id = prf_id;
	return &rec_prf;
}

int
main(void)
{
	T0N_CTXT cc;
	T0N_CTXT *c = &cc;
	uint32_t d0, from_client = ND_U32(), prf_id = ND_U32();
	unsigned ver = ND_U16();
	int i, k;
#ifdef NATIVE_REPLAY
	NATIVE_FILL(c, sizeof *c);
#endif
	the = c;
	for (k = 1; k <= 6; k ++) for (i = 0; i < 64; i ++) digest[k][i] = ND_U8();
	ASSUME(prf_id == br_sha256_ID || prf_id == br_sha384_ID);     /* the PRF hash of a TLS 1.2 suite */
	ASSUME(ver == BR_TLS10 || ver == BR_TLS11 || ver == BR_TLS12);
	c->eng.session.version = (uint16_t)ver;
	T0F_DEPTH_AT(5);
	d0 = t0n_dpi;
	T0F_PUSH(c, from_client); T0F_PUSH(c, prf_id);
	t0n_co = 0;
	C05_DISPATCH(c, C05_OP_compute_Finished_inner);
	CHECK(t0n_dpi == d0 && t0n_co == 0, "compute-Finished-inner pops its two operands and does not yield");
	CHECK(get_calls == 1 && got_id == (int)prf_id && prf_calls == 1, "the PRF of the given identifier is invoked exactly once");
	CHECK(ok_dst && ok_len, "12 bytes of verify_data written at the start of the pad");
	CHECK(ok_secret, "keyed with the 48-byte master secret of the session");
	CHECK(from_client ? ok_label_client : ok_label_server, "label is \"client finished\" for the client's Finished, \"server finished\" otherwise");
	CHECK(ok_seednum, "one seed chunk");
	if (ver == BR_TLS12) {
		CHECK(out_n == 1 && out_ids[0] == (int)prf_id && seed_len == olen[prf_id], "TLS 1.2: seed = transcript hash of the PRF's hash function");
		for (i = 0; i < 48; i ++) if ((size_t)i < seed_len) CHECK(seed_copy[i] == digest[prf_id][i], "TLS 1.2: seed bytes = that digest");
		WITNESS_POINT("TLS 1.2");
	} else {
		CHECK(out_n == 2 && out_ids[0] == br_md5_ID && out_ids[1] == br_sha1_ID && seed_len == 36, "TLS 1.0/1.1: seed = MD5 || SHA-1 of the transcript (36 bytes)");
		for (i = 0; i < 16; i ++) CHECK(seed_copy[i] == digest[br_md5_ID][i], "seed[0..16) = MD5 digest");
		for (i = 0; i < 20; i ++) CHECK(seed_copy[16 + i] == digest[br_sha1_ID][i], "seed[16..36) = SHA-1 digest");
		WITNESS_POINT("TLS 1.0/1.1");
	}
	if (from_client) { WITNESS_POINT("client label"); } else { WITNESS_POINT("server label"); }
	return 0;
}
