/*
 * C08 (g): EC point multiplication through the implementation's api_mul
 * (static; reached by name in the IR, and through the br_ec_impl vtable on the
 * real side): decode point, multiply by a scalar of XLEN bytes, convert to
 * affine, encode.  -DIMPL=1 ec_p256_m15, 2 ec_prime_i15 (P-256), 3 ec_c25519_m15.
 * Secret: scalar bytes, point coordinates.  Public: lengths, curve.
 */
#include "C08_rt.h"
#include "inner.h"
#include C08_GEN
#ifndef XLEN
#define XLEN 1
#endif
#if IMPL == 3
#define GLEN 32
#define CURVE BR_EC_curve25519
#define RIMPL br_ec_c25519_m15
#else
#define GLEN 65
#define CURVE BR_EC_secp256r1
#if IMPL == 1
#define RIMPL br_ec_p256_m15
#else
#define RIMPL br_ec_prime_i15
#endif
#endif
static unsigned char G[GLEN + 1] __attribute__((aligned(16))), x[XLEN + 1];
static uint32_t ret;
static void c08_public(void) { }
static void c08_secret(void)
{
	ND_BYTES(G, GLEN);
#if IMPL != 3
	G[0] = 0x04;
#endif
	ND_BYTES(x, XLEN);
	ret = 0;
}
static void c08_call(void) { ret = ir_api_mul(G, GLEN, x, XLEN, CURVE); }
#ifdef C08_TV
static void c08_call_real(void) { ret = RIMPL.mul(G, GLEN, x, XLEN, CURVE); }
static void c08_out(void) { C08_OUT(G, GLEN); C08_OUTV(ret); }
#endif
#include "C08_main.h"
