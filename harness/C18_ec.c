/*
 * C18.c: br_encode_ec_raw_der / br_encode_ec_pkcs8_der
 * (real src/x509/encode_ec_rawder.c, encode_ec_pk8der.c, asn1enc.c).
 *
 *   -DPK8=0|1     raw ECPrivateKey / PKCS#8 wrapper
 *   -DXLEN=n      private scalar length (concrete; contents symbolic; leading
 *                 zero octets are NOT stripped per RFC 5915 / the API doc)
 *   -DQLEN=n      public point length (contents symbolic), -1: pk == NULL
 *   -DCURVE=id    concrete curve id; undefined: symbolic int (23, 24, 25 and
 *                 every unsupported value)
 *   -DEXACT=1     destination is an exact-size region at the end of an array
 *
 * Checks: (a) announced size == returned size == bytes written (guard
 * region), (b) strict DER reader (C18_der.h): RFC 5915 ECPrivateKey
 * { 1, OCTET STRING x, [0] { namedCurve OID } (raw only), [1] { BIT STRING
 * 00 || q } (iff pk != NULL) }, for PK8 inside RFC 5208 PrivateKeyInfo
 * { 0, { id-ecPublicKey, namedCurve OID }, OCTET STRING }, nothing else,
 * (c) unsupported curve => 0 in both passes and nothing written.
 * Curve ids are the TLS NamedCurve numbers (RFC 4492 5.1.1: secp256r1 = 23,
 * secp384r1 = 24, secp521r1 = 25); OIDs from RFC 5480 2.1.1.1 as arc lists.
 */
#include "common.h"
#include "inner.h"
#include "C18_der.h"

#ifndef PK8
#define PK8 0
#endif
#ifndef XLEN
#define XLEN 3
#endif
#ifndef QLEN
#define QLEN 5
#endif
#ifndef EXACT
#define EXACT 0
#endif

#define HAVE_PK  (QLEN >= 0)
#define QL       (HAVE_PK ? QLEN : 0)
#define MAXENC   (XLEN + QL + 30 + (PK8 ? 34 : 0))
#define GUARD    8
#define OUTSZ    (MAXENC + GUARD)
#define ARR(n)   ((n) > 0 ? (n) : 1)

static size_t
encode(void *dest, const br_ec_private_key *sk, const br_ec_public_key *pk)
{
#if PK8
	return br_encode_ec_pkcs8_der(dest, sk, pk);
#else
	return br_encode_ec_raw_der(dest, sk, pk);
#endif
}

static void
rd_curve_oid(rd_t *r, int curve)
{
	if (curve == 23) rd_oid(r, ARCS_secp256r1, NARCS(ARCS_secp256r1));
	else if (curve == 24) rd_oid(r, ARCS_secp384r1, NARCS(ARCS_secp384r1));
	else if (curve == 25) rd_oid(r, ARCS_secp521r1, NARCS(ARCS_secp521r1));
	else r->ok = 0;
}

/* RFC 5915 3 */
static void
read_ec_private_key(rd_t *outer, int curve, const unsigned char *x,
	const unsigned char *q, int with_params, int *fields_ok)
{
	rd_t r = rd_enter(outer, 0x30);
	size_t off, len;
	int ok = 1;

	rd_uint(&r, &off, &len);             /* version ecPrivkeyVer1(1) */
	if (!r.ok || !val_is_small(r.b, off, len, 1)) ok = 0;
	rd_prim(&r, 0x04, &off, &len);       /* privateKey OCTET STRING, verbatim */
	if (!r.ok || !bytes_eq(r.b + off, len, x, XLEN, XLEN)) ok = 0;
	if (with_params) {
		rd_t pa = rd_enter(&r, 0xA0);    /* parameters [0] EXPLICIT namedCurve */
		rd_curve_oid(&pa, curve);
		if (!rd_done(&pa)) ok = 0;
	}
#if HAVE_PK
	{
		rd_t pu = rd_enter(&r, 0xA1);    /* publicKey [1] EXPLICIT BIT STRING */
		rd_prim(&pu, 0x03, &off, &len);
		if (!pu.ok || len != (size_t)QL + 1 || pu.b[off] != 0x00) ok = 0;   /* 0 unused bits */
		else if (!bytes_eq(pu.b + off + 1, len - 1, q, QL, QL)) ok = 0;
		if (!rd_done(&pu)) ok = 0;
	}
#else
	(void)q;
#endif
	if (!rd_done(&r)) ok = 0;
	if (!r.ok) outer->ok = 0;
	*fields_ok = ok;
}

int main(void)
{
	unsigned char x[ARR(XLEN)], q[ARR(QL)];
	unsigned char out[OUTSZ];
	unsigned char s = ND_U8();
	br_ec_private_key sk;
	br_ec_public_key pk, *ppk;
	size_t r0, r1;
	unsigned char *dest;
	int curve;

	ND_BYTES(x, XLEN);
	ND_BYTES(q, QL);
#ifdef CURVE
	curve = CURVE;
#else
	curve = ND_INT();
#endif
	sk.curve = curve;
	sk.x = x;
	sk.xlen = XLEN;
	pk.curve = curve;
	pk.q = q;
	pk.qlen = QL;
	ppk = HAVE_PK ? &pk : NULL;
	c18_fill(out, OUTSZ, s);

	r0 = encode(NULL, &sk, ppk);
#ifndef CURVE
	if (curve != 23 && curve != 24 && curve != 25) {
		/* "If the key cannot be encoded (e.g. because there is no known
		   OBJECT IDENTIFIER for the used curve), then 0 is returned." */
		CHECK(r0 == 0, "unsupported curve: 0 announced");
		r1 = encode(out, &sk, ppk);
		CHECK(r1 == 0, "unsupported curve: 0 returned when writing");
		CHECK(c18_untouched(out, OUTSZ, 0, 0, s), "unsupported curve: nothing written");
		WITNESS_POINT("unsupported curve");
		FINISH();
	}
#endif
	CHECK(r0 >= 2 && r0 <= MAXENC, "announced size within the expected range");
#if EXACT
	dest = out + (OUTSZ - r0);
#else
	dest = out;
#endif
	r1 = encode(dest, &sk, ppk);
	CHECK(r0 == r1, "announced size (dest == NULL) == returned size when writing");
	CHECK(c18_untouched(out, OUTSZ, (size_t)(dest - out), (size_t)(dest - out) + r1, s),
		"nothing written outside dest[0 .. returned size)");
	{
		rd_t top;
		int fields_ok = 0;

		top.b = dest; top.pos = 0; top.end = r1; top.ok = 1;
#if PK8
		{
			/* RFC 5208 5: PrivateKeyInfo; RFC 5480 2.1.1: ECParameters = namedCurve */
			rd_t pki = rd_enter(&top, 0x30), alg, pkey;
			size_t off, len;
			int wrap_ok = 1;

			rd_uint(&pki, &off, &len);                 /* version v1(0) */
			if (!pki.ok || !val_is_small(pki.b, off, len, 0)) wrap_ok = 0;
			alg = rd_enter(&pki, 0x30);
			rd_oid(&alg, ARCS_ecPublicKey, NARCS(ARCS_ecPublicKey));
			rd_curve_oid(&alg, curve);
			if (!rd_done(&alg)) wrap_ok = 0;
			pkey = rd_enter(&pki, 0x04);
			read_ec_private_key(&pkey, curve, x, q, 0, &fields_ok);
			if (!rd_done(&pkey)) wrap_ok = 0;
			if (!rd_done(&pki)) wrap_ok = 0;           /* no attributes, no publicKey */
			CHECK(wrap_ok, "PKCS#8 PrivateKeyInfo { 0, { id-ecPublicKey, namedCurve }, OCTET STRING { ECPrivateKey } } exactly");
		}
#else
		read_ec_private_key(&top, curve, x, q, 1, &fields_ok);
#endif
		CHECK(top.ok, "output is well-formed strict DER");
		CHECK(fields_ok, "ECPrivateKey { 1, x verbatim, [0] curve OID (raw form only), [1] BIT STRING 00||q iff pk != NULL }");
		CHECK(rd_done(&top), "returned size == size of the structure: no trailing byte");
	}
#ifdef CURVE
	WITNESS_POINT("encoded");
#else
	if (curve == 23) { WITNESS_POINT("secp256r1"); }
	if (curve == 24) { WITNESS_POINT("secp384r1"); }
	if (curve == 25) { WITNESS_POINT("secp521r1"); }
#endif
	return 0;
}
