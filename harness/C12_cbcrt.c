/*
 * C12 CBC round trip with the REAL AES cores and key schedules:
 * cbcdec_run(cbcenc_run(x)) == x and the two IVs end up equal, NBLK blocks,
 * every KLEN-byte key, IV and data.  (Needs the solver to see that the
 * decryption rounds undo the encryption rounds: expensive; thorough tier.)
 * ENC_T DEC_T ENC_INIT DEC_INIT ENC_RUN DEC_RUN KLEN NBLK
 */
#include "common.h"
#include "inner.h"

int main(void)
{
	unsigned char key[KLEN], iv1[16], iv2[16], d0[16 * NBLK], d[16 * NBLK];
	ENC_T ke;
	DEC_T kd;
	ND_BYTES(key, KLEN);
	for (int i = 0; i < 16; i++) iv1[i] = iv2[i] = ND_U8();
	for (int i = 0; i < 16 * NBLK; i++) d0[i] = d[i] = ND_U8();
	ENC_INIT(&ke, key, KLEN);
	DEC_INIT(&kd, key, KLEN);
	ENC_RUN(&ke, iv1, d, 16 * NBLK);
	DEC_RUN(&kd, iv2, d, 16 * NBLK);
	for (int i = 0; i < 16 * NBLK; i++) CHECK(d[i] == d0[i], "CBC decrypt(encrypt(x)) == x");
	for (int i = 0; i < 16; i++) CHECK(iv2[i] == iv1[i], "both directions leave the last ciphertext block as IV");
	WITNESS_POINT("round trip");
	return 0;
}
