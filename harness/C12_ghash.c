/*
 * C12 GHASH (real src/hash/ghash_ctmul.c, ghash_ctmul32.c, ghash_ctmul64.c).
 * WHAT 1: carry-less multiplication kernels == bitwise carry-less reference:
 *         KER 1 ghash_ctmul.c bmul (32x32->64), KER 2 ghash_ctmul32.c bmul32
 *         (low 32 bits) and rev32, KER 3 ghash_ctmul64.c bmul64 (low 64 bits)
 *         and rev64; every operand pair.
 * WHAT 2: one 16-byte block, every y, h, data: IMPL A == IMPL B
 *         (A,B in 1 ctmul, 2 ctmul32, 3 ctmul64, 0 = bitwise GF(2^128)
 *         reference of SP 800-38D 6.3).
 * WHAT 3: structure, IMPL A: a short final block is zero-padded
 *         (ghash(y,h,d,LEN) == ghash(y,h,d||0..0,16*ceil)), and
 *         ghash(y,h,d,32) == ghash(y,h,d,16); ghash(y,h,d+16,16).
 * WHAT 4: IMPL A == bitwise GF(2^128) reference when one operand is a unit
 *         vector and the other arbitrary: for every bit position i in
 *         I_LO..I_HI, (y ^ data) = e_i with every h, and h = e_i with every
 *         y ^ data.  (GHASH is bilinear over GF(2); the general symbolic x
 *         symbolic product does not finish on any back end.)
 */
#include "common.h"
#include "inner.h"

#if WHAT == 1
#if KER == 1
#include "src/hash/ghash_ctmul.c"
#elif KER == 2
#include "src/hash/ghash_ctmul32.c"
#else
#include "src/hash/ghash_ctmul64.c"
#endif
int main(void)
{
#if KER == 1
	uint32_t x = ND_U32(), y = ND_U32(), hi, lo;
	uint64_t z = 0;
	for (int i = 0; i < 32; i++) if ((y >> i) & 1) z ^= (uint64_t)x << i;
	bmul(&hi, &lo, x, y);
	CHECK(lo == (uint32_t)z, "bmul low word == carry-less product");
	CHECK(hi == (uint32_t)(z >> 32), "bmul high word == carry-less product");
#elif KER == 2
	uint32_t x = ND_U32(), y = ND_U32(), z = 0, rv = 0;
	for (int i = 0; i < 32; i++) if ((y >> i) & 1) z ^= x << i;
	CHECK(bmul32(x, y) == z, "bmul32 == low 32 bits of the carry-less product");
	for (int i = 0; i < 32; i++) rv |= ((x >> i) & 1) << (31 - i);
	CHECK(rev32(x) == rv, "rev32 == bit reversal");
#else
	uint64_t x = ND_U64(), y = ND_U64(), z = 0, rv = 0;
	for (int i = 0; i < 64; i++) if ((y >> i) & 1) z ^= x << i;
	CHECK(bmul64(x, y) == z, "bmul64 == low 64 bits of the carry-less product");
	for (int i = 0; i < 64; i++) rv |= ((x >> i) & 1) << (63 - i);
	CHECK(rev64(x) == rv, "rev64 == bit reversal");
#endif
	WITNESS_POINT("kernel compared");
	return 0;
}
#else

/* SP 800-38D 6.3, algorithm 1: Z = X . Y in GF(2^128), blocks as 16 bytes,
   bit 0 = most significant bit of byte 0 */
static uint64_t ld64be(const unsigned char *p) { uint64_t v = 0; for (int i = 0; i < 8; i++) v = v << 8 | p[i]; return v; }
static void st64be(unsigned char *p, uint64_t v) { for (int i = 7; i >= 0; i--) { p[i] = (unsigned char)v; v >>= 8; } }

static void
ref_gmul(unsigned char *x, const unsigned char *y)
{
	/* block = (hi, lo) with bit 0 of the standard = bit 63 of hi */
	uint64_t xh = ld64be(x), xl = ld64be(x + 8), vh = ld64be(y), vl = ld64be(y + 8), zh = 0, zl = 0;
	for (int i = 0; i < 128; i++) {
		uint64_t xi = i < 64 ? (xh >> (63 - i)) & 1 : (xl >> (127 - i)) & 1;
		if (xi) { zh ^= vh; zl ^= vl; }
		uint64_t lsb = vl & 1;
		vl = (vl >> 1) | (vh << 63);
		vh >>= 1;
		if (lsb) vh ^= (uint64_t)0xE1 << 56;	/* R = 11100001 || 0^120 */
	}
	st64be(x, zh); st64be(x + 8, zl);
}

static void
ref_ghash(void *y, const void *h, const void *data, size_t len)
{
	unsigned char *yb = y;
	const unsigned char *d = data;
	for (size_t o = 0; o < len; o += 16) {
		for (size_t i = 0; i < 16 && o + i < len; i++) yb[i] ^= d[o + i];
		ref_gmul(yb, h);
	}
}

static void
run(int impl, void *y, const void *h, const void *data, size_t len)
{
	switch (impl) {
	case 0: ref_ghash(y, h, data, len); break;
#if IMPL_A == 1 || IMPL_B == 1
	case 1: br_ghash_ctmul(y, h, data, len); break;
#endif
#if IMPL_A == 2 || IMPL_B == 2
	case 2: br_ghash_ctmul32(y, h, data, len); break;
#endif
#if IMPL_A == 3 || IMPL_B == 3
	case 3: br_ghash_ctmul64(y, h, data, len); break;
#endif
	}
}

#if WHAT == 4
#define IMPL_B 0
int main(void)
{
	unsigned char v[16], zero[16];
	ND_BYTES(v, 16);
	for (int i = 0; i < 16; i++) zero[i] = 0;
	for (int i = I_LO; i <= I_HI; i++) {
		unsigned char e[16], y1[16], y2[16];
		for (int j = 0; j < 16; j++) e[j] = 0;
		e[i >> 3] = (unsigned char)(0x80 >> (i & 7));
		for (int j = 0; j < 16; j++) y1[j] = y2[j] = 0;
		run(IMPL_A, y1, v, e, 16);
		run(0, y2, v, e, 16);
		for (int j = 0; j < 16; j++) CHECK(y1[j] == y2[j], "GHASH(e_i, h) == reference for every h");
		for (int j = 0; j < 16; j++) y1[j] = y2[j] = 0;
		run(IMPL_A, y1, e, v, 16);
		run(0, y2, e, v, 16);
		for (int j = 0; j < 16; j++) CHECK(y1[j] == y2[j], "GHASH(x, e_i) == reference for every x");
	}
	(void)zero;
	WITNESS_POINT("unit vectors compared");
	return 0;
}
#elif WHAT == 2
int main(void)
{
	unsigned char y1[16], y2[16], h[16], d[16];
	for (int i = 0; i < 16; i++) y1[i] = y2[i] = ND_U8();
	ND_BYTES(h, 16);
	ND_BYTES(d, 16);
	run(IMPL_A, y1, h, d, 16);
	run(IMPL_B, y2, h, d, 16);
	for (int i = 0; i < 16; i++) CHECK(y1[i] == y2[i], "GHASH implementations agree on one block");
	WITNESS_POINT("one block compared");
	return 0;
}
#else
#define IMPL_B IMPL_A
int main(void)
{
	unsigned char y0[16], y1[16], y2[16], h[16], d[32], p[32];
	ND_BYTES(y0, 16);
	ND_BYTES(h, 16);
	ND_BYTES(d, 32);
	/* short final block is zero-padded */
	for (int i = 0; i < 32; i++) p[i] = i < LEN ? d[i] : 0;
	for (int i = 0; i < 16; i++) y1[i] = y2[i] = y0[i];
	run(IMPL_A, y1, h, d, LEN);
	run(IMPL_A, y2, h, p, (LEN + 15) / 16 * 16);
	for (int i = 0; i < 16; i++) CHECK(y1[i] == y2[i], "a short final block is processed as if zero-padded");
	/* chaining across calls */
	for (int i = 0; i < 16; i++) y1[i] = y2[i] = y0[i];
	run(IMPL_A, y1, h, d, 32);
	run(IMPL_A, y2, h, d, 16);
	run(IMPL_A, y2, h, d + 16, 16);
	for (int i = 0; i < 16; i++) CHECK(y1[i] == y2[i], "ghash(y,h,d,32) == ghash over the two halves with y carried");
	run(IMPL_A, y2, h, d, 0);
	for (int i = 0; i < 16; i++) CHECK(y1[i] == y2[i], "zero-length call leaves y unchanged");
	WITNESS_POINT("structure compared");
	return 0;
}
#endif
#endif
