/*
 * C12 GHASH (real src/hash/ghash_ctmul.c, ghash_ctmul32.c, ghash_ctmul64.c).
 * WHAT 1: carry-less multiplication kernels == bitwise carry-less reference:
 *         KER 1 ghash_ctmul.c bmul (32x32->64), KER 2 ghash_ctmul32.c bmul32
 *         (low 32 bits) and rev32, KER 3 ghash_ctmul64.c bmul64 (low 64 bits)
 *         and rev64; every operand pair.
 * WHAT 2: one 16-byte block, every y, h, data: IMPL A == IMPL B
 *         (A,B in 1 ctmul, 2 ctmul32, 3 ctmul64, 0 = bitwise GF(2^128)
 *         reference of SP 800-38D 6.3).
 * WHAT 3: structure, IMPL A: a short final block is zero-padded
 *         (ghash(y,h,d,LEN) == ghash(y,h,d||0..0,16*ceil)), and
 *         ghash(y,h,d,32) == ghash(y,h,d,16); ghash(y,h,d+16,16).
 */
#include "common.h"
#include "inner.h"

#if WHAT == 1
#if KER == 1
#include "src/hash/ghash_ctmul.c"
#elif KER == 2
#include "src/hash/ghash_ctmul32.c"
#else
#include "src/hash/ghash_ctmul64.c"
#endif
int main(void)
{
#if KER == 1
	uint32_t x = ND_U32(), y = ND_U32(), hi, lo;
	uint64_t z = 0;
	for (int i = 0; i < 32; i++) if ((y >> i) & 1) z ^= (uint64_t)x << i;
	bmul(&hi, &lo, x, y);
	CHECK(lo == (uint32_t)z, "bmul low word == carry-less product");
	CHECK(hi == (uint32_t)(z >> 32), "bmul high word == carry-less product");
#elif KER == 2
	uint32_t x = ND_U32(), y = ND_U32(), z = 0, rv = 0;
	for (int i = 0; i < 32; i++) if ((y >> i) & 1) z ^= x << i;
	CHECK(bmul32(x, y) == z, "bmul32 == low 32 bits of the carry-less product");
	for (int i = 0; i < 32; i++) rv |= ((x >> i) & 1) << (31 - i);
	CHECK(rev32(x) == rv, "rev32 == bit reversal");
#else
	uint64_t x = ND_U64(), y = ND_U64(), z = 0, rv = 0;
	for (int i = 0; i < 64; i++) if ((y >> i) & 1) z ^= x << i;
	CHECK(bmul64(x, y) == z, "bmul64 == low 64 bits of the carry-less product");
	for (int i = 0; i < 64; i++) rv |= ((x >> i) & 1) << (63 - i);
	CHECK(rev64(x) == rv, "rev64 == bit reversal");
#endif
	WITNESS_POINT("kernel compared");
	return 0;
}
#else

/* SP 800-38D 6.3, algorithm 1: Z = X . Y in GF(2^128), blocks as 16 bytes,
   bit 0 = most significant bit of byte 0 */
static void
ref_gmul(unsigned char *x, const unsigned char *y)
{
	unsigned char z[16], v[16];
	for (int i = 0; i < 16; i++) { z[i] = 0; v[i] = y[i]; }
	for (int i = 0; i < 128; i++) {
		if ((x[i >> 3] >> (7 - (i & 7))) & 1)
			for (int j = 0; j < 16; j++) z[j] ^= v[j];
		unsigned lsb = v[15] & 1;
		for (int j = 15; j > 0; j--) v[j] = (unsigned char)((v[j] >> 1) | (v[j - 1] << 7));
		v[0] >>= 1;
		if (lsb) v[0] ^= 0xE1;
	}
	for (int i = 0; i < 16; i++) x[i] = z[i];
}

static void
ref_ghash(void *y, const void *h, const void *data, size_t len)
{
	unsigned char *yb = y;
	const unsigned char *d = data;
	for (size_t o = 0; o < len; o += 16) {
		for (size_t i = 0; i < 16 && o + i < len; i++) yb[i] ^= d[o + i];
		ref_gmul(yb, h);
	}
}

static void
run(int impl, void *y, const void *h, const void *data, size_t len)
{
	switch (impl) {
	case 0: ref_ghash(y, h, data, len); break;
#if IMPL_A == 1 || IMPL_B == 1
	case 1: br_ghash_ctmul(y, h, data, len); break;
#endif
#if IMPL_A == 2 || IMPL_B == 2
	case 2: br_ghash_ctmul32(y, h, data, len); break;
#endif
#if IMPL_A == 3 || IMPL_B == 3
	case 3: br_ghash_ctmul64(y, h, data, len); break;
#endif
	}
}

#if WHAT == 2
int main(void)
{
	unsigned char y1[16], y2[16], h[16], d[16];
	for (int i = 0; i < 16; i++) y1[i] = y2[i] = ND_U8();
	ND_BYTES(h, 16);
	ND_BYTES(d, 16);
	run(IMPL_A, y1, h, d, 16);
	run(IMPL_B, y2, h, d, 16);
	for (int i = 0; i < 16; i++) CHECK(y1[i] == y2[i], "GHASH implementations agree on one block");
	WITNESS_POINT("one block compared");
	return 0;
}
#else
#define IMPL_B IMPL_A
int main(void)
{
	unsigned char y0[16], y1[16], y2[16], h[16], d[32], p[32];
	ND_BYTES(y0, 16);
	ND_BYTES(h, 16);
	ND_BYTES(d, 32);
	/* short final block is zero-padded */
	for (int i = 0; i < 32; i++) p[i] = i < LEN ? d[i] : 0;
	for (int i = 0; i < 16; i++) y1[i] = y2[i] = y0[i];
	run(IMPL_A, y1, h, d, LEN);
	run(IMPL_A, y2, h, p, (LEN + 15) / 16 * 16);
	for (int i = 0; i < 16; i++) CHECK(y1[i] == y2[i], "a short final block is processed as if zero-padded");
	/* chaining across calls */
	for (int i = 0; i < 16; i++) y1[i] = y2[i] = y0[i];
	run(IMPL_A, y1, h, d, 32);
	run(IMPL_A, y2, h, d, 16);
	run(IMPL_A, y2, h, d + 16, 16);
	for (int i = 0; i < 16; i++) CHECK(y1[i] == y2[i], "ghash(y,h,d,32) == ghash over the two halves with y carried");
	run(IMPL_A, y2, h, d, 0);
	for (int i = 0; i < 16; i++) CHECK(y1[i] == y2[i], "zero-length call leaves y unchanged");
	WITNESS_POINT("structure compared");
	return 0;
}
#endif
#endif
