/*
 * C13 HKDF: the real src/kdf/hkdf.c (init / inject / flip / produce, chunk
 * counter, buffering of partial output blocks, NO_SALT) against RFC 5869.
 *
 * With the real hmac.c + hash files below it, symbolic execution of
 * br_hkdf_context (a union of br_hmac_context -- which holds the 8-member
 * br_hash_compat_context union -- with br_hmac_key_context) did not finish
 * in 20 minutes.  HMAC is therefore bound at the link-time seam br_hmac_*
 * (hmac.c is not linked) to a cheap keyed accumulator in which every key
 * byte, every message byte, their positions and the total length influence
 * every output byte, with the real out_len semantics of br_hmac_init
 * (0 = full digest length, taken from the hash descriptor).  That
 * br_hmac_* == RFC 2104 is the KEY query of C13_hmac.c.  The reference below
 * is RFC 5869 2.2/2.3 written with the same br_hmac_* calls.
 *
 *  -DHLEN digest length of the stand-in hash descriptor (32)
 *  -DSALTL salt length, -1 = BR_HKDF_NO_SALT;  IKML, INFL, OUTL, O1 (first
 *  produce call), CHUNK0 > 0: start the expansion at that chunk number
 *  (state injection, to reach the 255-chunk limit)
 */
#include "common.h"
#include "inner.h"

#ifndef HLEN
#define HLEN 32
#endif
#ifndef SALTL
#define SALTL 5
#endif
#ifndef IKML
#define IKML 11
#endif
#ifndef INFL
#define INFL 3
#endif
#ifndef OUTL
#define OUTL 70
#endif
#ifndef O1
#define O1 5
#endif

/* ---- stand-in HMAC at the br_hmac_* link seam ---- */
static unsigned char
toy_lane(unsigned char s, unsigned char next, unsigned char b)
{
	return (unsigned char)((unsigned char)(s + b + 1) ^ (unsigned char)((next << 1) | (next >> 7)));
}
void
br_hmac_key_init(br_hmac_key_context *kc, const br_hash_class *d, const void *key, size_t len)
{
	kc->dig_vtable = d;
	for (int i = 0; i < 16; i++) kc->ksi[i] = (unsigned char)(i + 1 + len);
	for (size_t i = 0; i < len; i++)
		kc->ksi[i & 15] = toy_lane(kc->ksi[i & 15], kc->ksi[(i + 1) & 15], ((const unsigned char *)key)[i]);
}
void
br_hmac_init(br_hmac_context *ctx, const br_hmac_key_context *kc, size_t out_len)
{
	size_t hlen = (kc->dig_vtable->desc >> BR_HASHDESC_OUT_OFF) & BR_HASHDESC_OUT_MASK;
	ctx->dig.vtable = kc->dig_vtable;
	for (int i = 0; i < 16; i++) ctx->kso[i] = kc->ksi[i];
	ctx->kso[16] = ctx->kso[17] = ctx->kso[18] = 0;
	ctx->out_len = (out_len > 0 && out_len < hlen) ? out_len : hlen;
}
void
br_hmac_update(br_hmac_context *ctx, const void *data, size_t len)
{
	unsigned pos = ctx->kso[16];
	size_t total = (size_t)ctx->kso[17] | ((size_t)ctx->kso[18] << 8);
	for (size_t i = 0; i < len; i++) {
		unsigned l = (unsigned)((pos + i) & 15);
		ctx->kso[l] = toy_lane(ctx->kso[l], ctx->kso[(l + 1) & 15], ((const unsigned char *)data)[i]);
	}
	total += len;
	ctx->kso[16] = (unsigned char)((pos + len) & 15);
	ctx->kso[17] = (unsigned char)total;
	ctx->kso[18] = (unsigned char)(total >> 8);
}
size_t
br_hmac_out(const br_hmac_context *ctx, void *out)
{
	unsigned char s[16];
	size_t total = (size_t)ctx->kso[17] | ((size_t)ctx->kso[18] << 8);
	for (int i = 0; i < 16; i++) s[i] = ctx->kso[i];
	for (int i = 0; i < 16; i++) s[i] = toy_lane(s[i], s[(i + 1) & 15], (unsigned char)(total >> ((i & 1) * 8)));
	for (int i = 0; i < 16; i++) s[i] = toy_lane(s[i], s[(i + 1) & 15], 0xA5);
	for (size_t i = 0; i < ctx->out_len; i++)
		((unsigned char *)out)[i] = (unsigned char)(s[i & 15] + s[(i + 1 + (i >> 4)) & 15] + (i >> 4));
	return ctx->out_len;
}

static const br_hash_class toy_vt = {
	sizeof(br_sha256_context),
	BR_HASHDESC_ID(4) | BR_HASHDESC_OUT(HLEN) | BR_HASHDESC_STATE(32) | BR_HASHDESC_LBLEN(6),
	0, 0, 0, 0, 0
};

static void
ref_hmac3(const br_hmac_key_context *kc, const void *p1, size_t n1, const void *p2, size_t n2,
	const void *p3, size_t n3, unsigned char *out)
{
	br_hmac_context hc;
	br_hmac_init(&hc, kc, 0);
	if (n1) br_hmac_update(&hc, p1, n1);
	if (n2) br_hmac_update(&hc, p2, n2);
	if (n3) br_hmac_update(&hc, p3, n3);
	br_hmac_out(&hc, out);
}

#if SALTL < 0
#define SALTN 0
#else
#define SALTN SALTL
#endif

int main(void)
{
	unsigned char salt[SALTN + 1], ikm[IKML + 1], info[INFL + 1], r[OUTL + 64], o[OUTL + 1];
	ND_BYTES(salt, SALTN);
	ND_BYTES(ikm, IKML);
	ND_BYTES(info, INFL);
	size_t rlen = 0;
#ifdef CHUNK0
	unsigned char t0[HLEN];        /* T(CHUNK0): arbitrary */
	ND_BYTES(t0, HLEN);
#endif
	{
		/* RFC 5869 2.2 extract, 2.3 expand (N <= 255 blocks) */
		br_hmac_key_context kc;
		unsigned char prk[64], zero[64], t[64];
		unsigned ctr = 0;
		size_t tl = 0;
		for (int i = 0; i < 64; i++) zero[i] = 0;
#if SALTL < 0
		br_hmac_key_init(&kc, &toy_vt, zero, HLEN);
#else
		br_hmac_key_init(&kc, &toy_vt, salt, SALTN);
#endif
		ref_hmac3(&kc, ikm, IKML, 0, 0, 0, 0, prk);
		br_hmac_key_init(&kc, &toy_vt, prk, HLEN);
#ifdef CHUNK0
		for (int i = 0; i < HLEN; i++) t[i] = t0[i];
		tl = HLEN;
		ctr = CHUNK0;
#endif
		while (rlen < OUTL && ctr < 255) {
			unsigned char c;
			ctr++;
			c = (unsigned char)ctr;
			ref_hmac3(&kc, t, tl, info, INFL, &c, 1, t);
			tl = HLEN;
			for (size_t i = 0; i < HLEN && rlen < OUTL; i++) r[rlen++] = t[i];
		}
	}
	br_hkdf_context hk;
#if SALTL < 0
	br_hkdf_init(&hk, &toy_vt, BR_HKDF_NO_SALT, 77);
#else
	br_hkdf_init(&hk, &toy_vt, salt, SALTN);
#endif
	br_hkdf_inject(&hk, ikm, IKML / 2);
	br_hkdf_inject(&hk, ikm + IKML / 2, IKML - IKML / 2);
	br_hkdf_flip(&hk);
#ifdef CHUNK0
	/* state injection: CHUNK0 blocks already produced and consumed */
	for (int i = 0; i < HLEN; i++) hk.buf[i] = t0[i];
	hk.chunk_num = CHUNK0;
	hk.ptr = hk.dig_len;
#endif
	size_t n1 = br_hkdf_produce(&hk, info, INFL, o, O1);
	size_t n2 = br_hkdf_produce(&hk, info, INFL, o + O1, 0);
	size_t n3 = br_hkdf_produce(&hk, info, INFL, o + O1, OUTL - O1);
	CHECK(n1 == O1 && n2 == 0, "br_hkdf_produce returns the produced length");
	CHECK(n1 + n3 == rlen, "total produced length == min(requested, 255 blocks)");
	for (size_t i = 0; i < OUTL; i++) if (i < rlen) CHECK(o[i] == r[i], "HKDF output == RFC 5869 reference");
	WITNESS_POINT("HKDF checked");
	return 0;
}
