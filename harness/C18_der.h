/*
 * C18: independent reference DER *reader* used as the oracle for the
 * encoders of src/x509/asn1enc.c and src/x509/encode_*.c.
 *
 * Written from X.690 (DER: 8.1.3 definite lengths, 10.1 minimal length
 * octets, 8.3 INTEGER two's complement minimal contents, 8.19 OBJECT
 * IDENTIFIER sub-identifiers, 8.6 BIT STRING unused-bits octet) and from
 * RFC 8017 A.1.2 / RFC 5208 5 / RFC 5915 3 / RFC 5480 2.1.1.1 for the
 * structures.  Nothing in this file is taken from /repo: OIDs are given as
 * arc lists and encoded by oid_enc() below.
 *
 * DER is canonical: "the strict reader accepts the output, every field has
 * the expected value, and nothing follows" is the same statement as "the
 * output is byte-identical to what any other DER encoder produces".
 */
#ifndef C18_DER_H
#define C18_DER_H
#include <stdint.h>
#include <stddef.h>

/*
 * Guard-region helpers (own functions so that their loops can be given their
 * own --unwindset bound: c18_fill.0 / c18_untouched.0).
 */
static void
c18_fill(unsigned char *b, size_t n, unsigned char s)
{
	size_t i;

	for (i = 0; i < n; i++) b[i] = s;
}

/* every byte of b[0..n) outside [lo, hi) still has the sentinel value */
static int
c18_untouched(const unsigned char *b, size_t n, size_t lo, size_t hi, unsigned char s)
{
	size_t i;
	int ok = 1;

	for (i = 0; i < n; i++) {
		if ((i < lo || i >= hi) && b[i] != s) ok = 0;
	}
	return ok;
}

typedef struct {
	const unsigned char *b;   /* whole buffer */
	size_t pos;               /* next byte to read */
	size_t end;               /* first byte after the current structure */
	int ok;                   /* cleared on the first violation */
} rd_t;

/*
 * Read one identifier octet that must equal `tag`, then a DER definite
 * length.  Returns the content length (which is checked to fit in the
 * enclosing structure); r->pos is left on the first content octet.
 */
static size_t
rd_hdr(rd_t *r, unsigned tag)
{
	size_t len;
	unsigned c;

	if (!r->ok) return 0;
	if (r->pos >= r->end || r->b[r->pos] != tag) { r->ok = 0; return 0; }
	r->pos++;
	if (r->pos >= r->end) { r->ok = 0; return 0; }
	c = r->b[r->pos++];
	if (c < 0x80) {
		len = c;
	} else {
		unsigned k = c & 0x7F, i;
		/* 0x80 = indefinite (forbidden in DER); more than 4 length
		   octets never occurs for the sizes examined here */
		if (k == 0 || k > 4) { r->ok = 0; return 0; }
		if (r->end - r->pos < k) { r->ok = 0; return 0; }
		len = 0;
		for (i = 0; i < 4; i++) {
			if (i < k) {
				if (i == 0 && r->b[r->pos] == 0) r->ok = 0;  /* 10.1: fewest octets */
				len = (len << 8) | r->b[r->pos + i];
			}
		}
		r->pos += k;
		if (len < 0x80) r->ok = 0;                  /* 10.1: short form when possible */
		if (!r->ok) return 0;
	}
	if (len > r->end - r->pos) { r->ok = 0; return 0; }
	return len;
}

/* enter a constructed value: the sub-reader covers exactly its contents */
static rd_t
rd_enter(rd_t *r, unsigned tag)
{
	rd_t s;
	size_t len = rd_hdr(r, tag);

	s.b = r->b;
	s.ok = r->ok;
	s.pos = r->pos;
	s.end = r->ok ? r->pos + len : r->pos;
	if (r->ok) r->pos += len;
	return s;
}

/* the structure has been consumed entirely */
static int
rd_done(const rd_t *r)
{
	return r->ok && r->pos == r->end;
}

/*
 * Non-negative INTEGER (tag 0x02), X.690 8.3: at least one content octet,
 * two's complement so the top bit must be clear, and the first nine bits
 * are not all zero.  On success *off/*len describe the content octets.
 */
static void
rd_uint(rd_t *r, size_t *off, size_t *len)
{
	size_t n = rd_hdr(r, 0x02);

	*off = 0;
	*len = 0;
	if (!r->ok) return;
	if (n == 0) { r->ok = 0; return; }
	if (r->b[r->pos] >= 0x80) { r->ok = 0; return; }
	if (n > 1 && r->b[r->pos] == 0 && r->b[r->pos + 1] < 0x80) { r->ok = 0; return; }
	*off = r->pos;
	*len = n;
	r->pos += n;
}

/* primitive value with the given tag; returns content position/length */
static void
rd_prim(rd_t *r, unsigned tag, size_t *off, size_t *len)
{
	size_t n = rd_hdr(r, tag);

	*off = 0;
	*len = 0;
	if (!r->ok) return;
	*off = r->pos;
	*len = n;
	r->pos += n;
}

/*
 * Unsigned big-endian values a[0..alen) and b[0..blen) are the same integer
 * (leading zero octets on either side are immaterial).  max >= alen, blen.
 */
static int
val_eq(const unsigned char *a, size_t alen, const unsigned char *b, size_t blen, size_t max)
{
	size_t k;
	int eq = 1;

	if (alen > max || blen > max) return 0;
	for (k = 0; k < max; k++) {
		unsigned x = k < alen ? a[alen - 1 - k] : 0;
		unsigned y = k < blen ? b[blen - 1 - k] : 0;
		if (x != y) eq = 0;
	}
	return eq;
}

/* the value is the small constant v (0..127): exactly one octet */
static int
val_is_small(const unsigned char *buf, size_t off, size_t len, unsigned v)
{
	return len == 1 && buf[off] == v;
}

/* same octet string */
static int
bytes_eq(const unsigned char *a, size_t alen, const unsigned char *b, size_t blen, size_t max)
{
	size_t k;
	int eq = 1;

	if (alen != blen || alen > max) return 0;
	for (k = 0; k < max; k++) {
		if (k < alen && a[k] != b[k]) eq = 0;
	}
	return eq;
}

/*
 * X.690 8.19: contents octets of an OBJECT IDENTIFIER given as arcs.
 * First sub-identifier = 40*arc0 + arc1; each sub-identifier is written
 * base 128, most significant group first, bit 8 set on all but the last.
 */
static size_t
oid_enc(unsigned char *o, const uint32_t *arcs, size_t n)
{
	size_t len = 0, i;

	for (i = 1; i < n; i++) {
		uint32_t v = (i == 1) ? arcs[0] * 40 + arcs[1] : arcs[i];
		int nb = 1, j;
		while (nb < 5 && (v >> (7 * nb)) != 0) nb++;
		for (j = nb - 1; j >= 0; j--) {
			o[len++] = (unsigned char)(((v >> (7 * j)) & 0x7F) | (j ? 0x80 : 0));
		}
	}
	return len;
}

/* RFC 8017 A.1: rsaEncryption = pkcs-1 1 = 1.2.840.113549.1.1.1 */
static const uint32_t ARCS_rsaEncryption[] = { 1, 2, 840, 113549, 1, 1, 1 };
/* RFC 5480 2.1.1: id-ecPublicKey = ansi-X9-62 keyType(2) 1 = 1.2.840.10045.2.1 */
static const uint32_t ARCS_ecPublicKey[] = { 1, 2, 840, 10045, 2, 1 };
/* RFC 5480 2.1.1.1 */
static const uint32_t ARCS_secp256r1[] = { 1, 2, 840, 10045, 3, 1, 7 };
static const uint32_t ARCS_secp384r1[] = { 1, 3, 132, 0, 34 };
static const uint32_t ARCS_secp521r1[] = { 1, 3, 132, 0, 35 };

#define NARCS(a)   (sizeof (a) / sizeof (a)[0])

/* OBJECT IDENTIFIER (tag 0x06) whose value is the given arc list */
static void
rd_oid(rd_t *r, const uint32_t *arcs, size_t narcs)
{
	unsigned char exp[16];
	size_t el = oid_enc(exp, arcs, narcs);
	size_t off, len;

	rd_prim(r, 0x06, &off, &len);
	if (!r->ok) return;
	if (!bytes_eq(r->b + off, len, exp, el, sizeof exp)) r->ok = 0;
}

#endif
