/*
 * C14.4 tag comparison: after processing any AAD/data, for EVERY candidate
 * tag t (all TL bytes symbolic)
 *      check_tag(t) == 1   iff   t[0..TL) == the tag get_tag writes,
 * and the result is 0 or 1.  The context is duplicated (plain struct copy;
 * the block-cipher keys live outside it and are read-only) just before the
 * final call, so get_tag and check_tag see the same state.  Consequences
 * checked explicitly: flipping any single bit (symbolic position) of the
 * right tag is rejected; bytes beyond TL are never looked at (the candidate
 * buffer is exactly TL bytes long, pointer checks are on).
 * A comparison that skips a byte (e.g. loops to TL-1) fails the iff.
 */
#include "C14_api.h"

int main(void)
{
	unsigned char key[16], nonce[NLA], aad[ALA], data[DLA], good[16], cand[TL], flip[TL];
	ND_BYTES(key, 16);
	ND_BYTES(nonce, NLA);
	ND_BYTES(aad, ALA);
	ND_BYTES(data, DLA);
	ND_BYTES(cand, TL);
	unsigned pos = ND_U8(), bit = ND_U8();
	ASSUME(pos < TL && bit < 8);

	aead_t a, b, c;
	A_init(&a, key);
	A_reset(&a, nonce, NL, AL, DL, TL);
	A_aad(&a, aad, AL);
	A_flip(&a);
	A_run(&a, DIR, data, DL);
	b = a;
	c = a;
	A_get_tag(&b, good);

	uint32_t r = A_check_tag(&a, cand);
	int eq = 1;
	for (int i = 0; i < TL; i++) if (cand[i] != good[i]) eq = 0;
	CHECK(r == 0 || r == 1, "check_tag returns 0 or 1");
	CHECK((r == 1) == (eq == 1), "check_tag returns 1 exactly when all tag_len bytes are equal");

	for (int i = 0; i < TL; i++) flip[i] = good[i];
	flip[pos] ^= (unsigned char)(1u << bit);
	uint32_t rf = A_check_tag(&c, flip);
	CHECK(rf == 0, "a tag with one flipped bit is rejected");

	if (r == 1) { WITNESS_POINT("some tag is accepted"); }
	if (r == 0) { WITNESS_POINT("some tag is rejected"); }
	return 0;
}
