/*
 * C08 (a): the constant-time primitives of src/inner.h through the wrapper
 * C08_wrap_inner.c.  Secret: all operands.  Public: nothing but addresses.
 */
#include "C08_rt.h"
#include C08_GEN
static uint32_t in[3], out[18];
#ifdef C08_TV
void c08w_all(const uint32_t *in, uint32_t *out);
#endif
static void c08_public(void) { }
static void c08_secret(void)
{
	in[0] = ND_U32();
	in[1] = ND_U32();
	in[2] = ND_U32();
#ifdef C08_TV
	/* make the rare cases frequent for the differential run */
	if ((in[2] & 0x300) == 0) in[1] = in[0];
	if ((in[2] & 0xC00) == 0) in[0] = 0;
	if ((in[2] & 0x3000) == 0) in[0] >>= (in[2] >> 16) & 31;
#endif
	for (int i = 0; i < 18; i++) out[i] = 0;
}
static void c08_call(void) { ir_c08w_all((unsigned char *)in, (unsigned char *)out); }
#ifdef C08_TV
static void c08_call_real(void) { c08w_all(in, out); }
static void c08_out(void) { C08_OUT(out, sizeof out); }
#endif
#include "C08_main.h"
