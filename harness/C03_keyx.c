/*
 * C03 (server, static ECDH): se_do_keyx of ssl_scert_single_ec.c and the
 * engine's ecdh_common cooperate: on a bad client point the engine substitutes
 * "as many random bytes as do_keyx reported" for the shared secret.  So
 * do_keyx must report the curve's X-coordinate length on EVERY outcome -
 * a failure path that reports length 0 would let a peer without any private
 * key complete the handshake (master secret from an empty premaster).
 * EC implementation = contract stub (mul returns any flag).
 */
#include "common.h"
#include "inner.h"
#include "src/ssl/ssl_scert_single_ec.c"

static int mul_calls; static uint32_t mul_flag; static size_t mul_len;
static uint32_t st_mul(unsigned char *G, size_t Glen, const unsigned char *x, size_t xlen, int curve)
{ (void)x; (void)xlen; (void)curve; mul_calls++; mul_len = Glen; for (size_t i = 0; i < Glen && i < 140; i++) G[i] = (unsigned char)(G[i] ^ 0x5C); return mul_flag; }
static size_t st_xoff(int curve, size_t *len) { (void)curve; *len = 32; return 1; }
static const unsigned char *st_gen(int curve, size_t *len) { (void)curve; *len = 65; return 0; }
static const br_ec_impl st_ec = { 1u << 23, st_gen, st_gen, st_xoff, st_mul, 0, 0 };

int main(void)
{
	br_ssl_server_policy_ec_context pc;
	br_ec_private_key sk;
	unsigned char data[140], kx[4] = { 1, 2, 3, 4 };
	size_t len = ND_SIZE();
	ASSUME(len <= 133);
	ND_BYTES(data, 70);
	mul_flag = ND_U8() & 1;
	sk.curve = 23; sk.x = kx; sk.xlen = 4;
	pc.vtable = 0; pc.sk = &sk; pc.iec = &st_ec; pc.mhash = 0;
	const br_ssl_server_policy_class **pp = (const br_ssl_server_policy_class **)&pc.vtable;
	size_t l = len;
	uint32_t r = se_do_keyx(pp, data, &l);
	CHECK(l == 32, "do_keyx reports the X-coordinate length on every outcome (the engine sizes its random substitute with it)");
	CHECK(r == 0 || r == 1, "flag");
	CHECK(!(r == 1) || (mul_calls == 1 && mul_flag == 1 && mul_len == len), "success only if the curve multiplication over the client's point succeeded");
	if (r) { WITNESS_POINT("key exchange ok"); } else { WITNESS_POINT("key exchange failed"); }
	return 0;
}
