/*
 * C02.b (GCM): gcm_decrypt / gcm_check_length / in_gcm_init (real
 * src/ssl/ssl_rec_gcm.c) accept exactly what RFC 5288 + RFC 5246 6.2.3.3 +
 * NIST SP 800-38D say, for EVERY record body of 8 + PLEN + 16 bytes
 * (explicit nonce, ciphertext and tag bytes all symbolic):
 *   nonce = salt(4) || explicit nonce(8)
 *   AAD   = seq(8) || type(1) || version(2) || plaintext length(2)
 *   S     = GHASH_H(pad16(AAD) || pad16(C) || be64(8*13) || be64(8*PLEN)),  H = E_K(0^128)
 *   T     = S ^ E_K(nonce || 00000001),   P_j = C_j ^ E_K(nonce || be32(2 + j))
 *   accept <=> all 16 tag bytes equal.
 * Block cipher (behind br_block_ctr_class) and GHASH (br_ghash) are the toy
 * stand-ins of C02_aead_stubs.h; the reference calls the raw toy block
 * function and a single GHASH over the padded concatenation.
 * Parameters: PLEN plaintext length, KL key length.
 */
#include "common.h"
#include "C02_aead_stubs.h"
#include "src/ssl/ssl_rec_gcm.c"

#ifndef PLEN
#define PLEN 17
#endif
#ifndef KL
#define KL 16
#endif
#define RL (8 + PLEN + 16)
#define CPAD ((PLEN + 15) & ~15)

static int
ref_gcm(const unsigned char *key, const unsigned char *salt, uint64_t seq, int type, unsigned ver,
	const unsigned char *rec, unsigned char *pt)
{
	unsigned char k[16], h[16], z[16], j[16], ek[16], s[16], g[16 + CPAD + 16];
	toy_fold_key(k, key, KL);
	for (int i = 0; i < 16; i++) z[i] = 0;
	toy_blk(k, z, h);
	for (size_t i = 0; i < sizeof g; i++) g[i] = 0;
	br_enc64be(g, seq);
	g[8] = (unsigned char)type;
	br_enc16be(g + 9, ver);
	br_enc16be(g + 11, PLEN);
	for (size_t i = 0; i < PLEN; i++) g[16 + i] = rec[8 + i];
	br_enc64be(g + 16 + CPAD, 13 * 8);
	br_enc64be(g + 16 + CPAD + 8, (uint64_t)PLEN * 8);
	for (int i = 0; i < 16; i++) s[i] = 0;
	toy_ghash(s, h, g, sizeof g);
	for (int i = 0; i < 4; i++) j[i] = salt[i];
	for (int i = 0; i < 8; i++) j[4 + i] = rec[i];
	br_enc32be(j + 12, 1);
	toy_blk(k, j, ek);
	int ok = 1;
	for (int i = 0; i < 16; i++)
		if ((unsigned char)(s[i] ^ ek[i]) != rec[8 + PLEN + i]) ok = 0;
	for (size_t b = 0; b * 16 < PLEN; b++) {
		br_enc32be(j + 12, (uint32_t)(2 + b));
		toy_blk(k, j, ek);
		for (size_t i = 0; i < 16 && b * 16 + i < PLEN; i++) pt[b * 16 + i] = rec[8 + b * 16 + i] ^ ek[i];
	}
	return ok;
}

int main(void)
{
	unsigned char key[KL], salt[4], rec1[RL], rec2[RL], pt[PLEN + 1];
	ND_BYTES(key, KL);
	ND_BYTES(salt, 4);
	for (int i = 0; i < RL; i++) rec1[i] = rec2[i] = ND_U8();
	br_sslrec_gcm_context c1;
	in_gcm_init(&c1, &toy_ctr_vtable, key, KL, &toy_ghash, salt);
	CHECK(c1.seq == 0, "init sets the sequence number to 0");
	uint64_t s = ND_U64();
	c1.seq = s;
	int type = ND_U8();
	unsigned ver = ND_U16();
	size_t rlen = ND_SIZE();
	/* RFC 5246 6.2.3.3 / RFC 5288: body = nonce_explicit(8) + ciphertext(= plaintext length <= 2^14) + tag(16) */
	CHECK((gcm_check_length(&c1, rlen) != 0) == (rlen >= 8 + 16 && rlen - 8 - 16 <= 16384),
		"gcm_check_length admits exactly 24 <= rlen <= 16384+24");
	CHECK(gcm_check_length(&c1, RL), "record length RL is admissible");
	size_t l1 = RL;
	unsigned char *p1 = gcm_decrypt(&c1, type, ver, rec1, &l1);
	int ok2 = ref_gcm(key, salt, s, type, ver, rec2, pt);
	CHECK((p1 != 0) == (ok2 != 0), "gcm_decrypt accepts iff the RFC 5288 reference accepts");
	CHECK(c1.seq == s + 1, "sequence number advances by exactly one");
	if (p1) {
		CHECK(l1 == PLEN && p1 == rec1 + 8, "plaintext region is body+8, length PLEN");
		for (size_t i = 0; i < PLEN; i++) CHECK(p1[i] == pt[i], "same plaintext bytes as the reference");
		WITNESS_POINT("some record is accepted");
	} else {
		WITNESS_POINT("some record is rejected");
	}
	return 0;
}
