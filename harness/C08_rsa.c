/*
 * C08 (e): RSA padding checks.
 *  -DFN=1  br_rsa_ssl_decrypt (src/rsa/rsa_ssl_decrypt.c): TLS RSA key exchange
 *          decryption with its padding check.  The modular exponentiation
 *          ("core") is a stand-in that leaves a secret block in data[] and
 *          returns a secret status bit.  Secret: the whole decrypted block and
 *          the core's status.  Public: len (= modulus length, concrete).
 *  -DFN=2  br_rsa_oaep_unpad (src/rsa/rsa_oaep_unpad.c) with br_mgf1_xor and the
 *          translated br_sha1 (or br_md5 with -DOH=2) (all IR).  Secret: the whole encoded message.
 *          Public: k, label.  Documented disclosure: validity and, if valid,
 *          the message length -- both runs are assumed to agree on it.
 */
#include "C08_rt.h"
#include "inner.h"
#include C08_GEN
#ifndef LEN
#define LEN 64
#endif
#ifndef LABLEN
#define LABLEN 3
#endif
#if defined(OH) && OH == 2
#define OVT_IR ir_g_br_md5_vtable
#define OVT_REAL br_md5_vtable
#else
#define OVT_IR ir_g_br_sha1_vtable
#define OVT_REAL br_sha1_vtable
#endif
static unsigned char data[LEN + 1], label[LABLEN + 1];
static uint32_t ret, core_ret;
static size_t dlen;
static br_rsa_private_key sk;

#if FN == 1
static uint32_t stub_core(unsigned char *x, unsigned char *k)
{
	OBS_ADDR(1000001, x);
	OBS_ADDR(1000002, k);
	return core_ret;
}
#ifdef C08_TV
static uint32_t real_core(unsigned char *x, const br_rsa_private_key *k) { (void)x; (void)k; return core_ret; }
#endif
#endif

static void c08_public(void)
{
	ND_BYTES(label, LABLEN);
}
static void c08_secret(void)
{
	sk.n_bitlen = 8 * LEN;
	ND_BYTES(data, LEN);
	core_ret = ND_U32() & 1;
	dlen = LEN;
	ret = 0;
}
static void c08_call(void)
{
#if FN == 1
	ret = ir_br_rsa_ssl_decrypt(stub_core, (unsigned char *)&sk, data, LEN);
#else
	ret = ir_br_rsa_oaep_unpad((unsigned char *)&OVT_IR, label, LABLEN, data, (unsigned char *)&dlen);
#endif
}
#if FN == 2
#define C08_DECLASS() (ret ? dlen + 1 : 0)
#endif
#ifdef C08_TV
static void c08_call_real(void)
{
#if FN == 1
	ret = br_rsa_ssl_decrypt(real_core, &sk, data, LEN);
#else
	ret = br_rsa_oaep_unpad(&OVT_REAL, label, LABLEN, data, &dlen);
#endif
}
static void c08_out(void) { C08_OUT(data, LEN); C08_OUTV(ret); C08_OUTV(dlen); }
#endif
#include "C08_main.h"
