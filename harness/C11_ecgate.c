/*
 * C11.c: argument gates of the EC implementations' mul / muladd.
 *
 * TARGET 1: br_ec_prime_i15 (real src/ec/ec_prime_i15.c, real
 *   decode_mod/add/sub/encode/iszero).  The two field-multiplication entry
 *   points br_i15_montymul / br_i15_modpow are bound at the link seam:
 *     MODE 0 (length gate): to a probe that asserts "reached only with the
 *       right point length" and ends the path.  Decides: any other length
 *       => 0 before any field multiplication; the right length goes on.
 *     MODE 1 (format gate): to a cheap stand-in (xor of the operands with a
 *       symbolic salt; the gate's verdict cannot depend on it because the
 *       flag is only ever and-ed).  Scalars are XL = 0 or 1 bytes so that
 *       the ladder is short.  Decides: right length but first byte != 0x04, or a
 *       coordinate >= p  => mul/muladd return 0 (after running to the end).
 *     MODE 2 (format gate at its source): the static point_decode() is
 *       called directly (unit #included): wrong length, first byte != 0x04
 *       or a coordinate >= p => 0, for every byte string of 0..140 bytes.
 *   CURVE 23|24|25 concrete per query, FN 0 = mul, 1 = muladd (B given),
 *   2 = muladd with B == NULL (generator).
 * TARGET 2: br_ec_p256_m15.mul / muladd length gate (real ec_p256_m15.c):
 *   every length 0..140 except 65 (concrete loop) => 0; curve id ignored;
 *   br_ccopy (first used inside the ladder / field reduction) is a probe.
 * TARGET 3: br_ec_c25519_m15.mul: Glen != 32 or kblen > 32 => 0 (concrete
 *   loops); muladd => 0 always.
 */
#include "common.h"
#include "inner.h"
#if defined(TARGET) && defined(MODE) && TARGET == 1 && MODE == 2
/* MODE 2: the static point_decode() itself, reached by including the unit */
#include "src/ec/ec_prime_i15.c"
#endif

#ifndef TARGET
#define TARGET 1
#endif
#ifndef MODE
#define MODE 0
#endif
#ifndef CURVE
#define CURVE 23
#endif
#ifndef FN
#define FN 0
#endif
#ifndef XL
#define XL 1      /* scalar length in bytes (TARGET 1) */
#endif

#if CURVE == 23
#define PLEN 32
static const unsigned char FIELD_P[PLEN] = {
	0xFF,0xFF,0xFF,0xFF,0x00,0x00,0x00,0x01,0x00,0x00,0x00,0x00,0x00,0x00,0x00,0x00,
	0x00,0x00,0x00,0x00,0xFF,0xFF,0xFF,0xFF,0xFF,0xFF,0xFF,0xFF,0xFF,0xFF,0xFF,0xFF };
#elif CURVE == 24
#define PLEN 48
static const unsigned char FIELD_P[PLEN] = {
	0xFF,0xFF,0xFF,0xFF,0xFF,0xFF,0xFF,0xFF,0xFF,0xFF,0xFF,0xFF,0xFF,0xFF,0xFF,0xFF,
	0xFF,0xFF,0xFF,0xFF,0xFF,0xFF,0xFF,0xFF,0xFF,0xFF,0xFF,0xFF,0xFF,0xFF,0xFF,0xFE,
	0xFF,0xFF,0xFF,0xFF,0x00,0x00,0x00,0x00,0x00,0x00,0x00,0x00,0xFF,0xFF,0xFF,0xFF };
#else
#define PLEN 66
static const unsigned char FIELD_P[PLEN] = {
	0x01,0xFF,0xFF,0xFF,0xFF,0xFF,0xFF,0xFF,0xFF,0xFF,0xFF,0xFF,0xFF,0xFF,0xFF,0xFF,0xFF,
	0xFF,0xFF,0xFF,0xFF,0xFF,0xFF,0xFF,0xFF,0xFF,0xFF,0xFF,0xFF,0xFF,0xFF,0xFF,0xFF,0xFF,
	0xFF,0xFF,0xFF,0xFF,0xFF,0xFF,0xFF,0xFF,0xFF,0xFF,0xFF,0xFF,0xFF,0xFF,0xFF,0xFF,0xFF,
	0xFF,0xFF,0xFF,0xFF,0xFF,0xFF,0xFF,0xFF,0xFF,0xFF,0xFF,0xFF,0xFF,0xFF,0xFF };
#endif
#define POINTLEN (1 + 2 * PLEN)
#define MAXLEN 140

static int be_ge(const unsigned char *a, const unsigned char *b, size_t w)
{
	int ge = 1, decided = 0;
	for (size_t i = 0; i < w; i++) {
		if (!decided && a[i] != b[i]) { decided = 1; ge = a[i] > b[i]; }
	}
	return ge;
}

#if TARGET == 1
static int gate_len_ok;
static uint16_t salt;
void br_i15_montymul(uint16_t *d, const uint16_t *x, const uint16_t *y, const uint16_t *m, uint16_t m0i)
{
#if MODE == 0
	(void)d; (void)x; (void)y; (void)m; (void)m0i;
	CHECK(gate_len_ok, "field multiplication is reached only with the right point length");
	WITNESS_POINT("the right length goes on to the arithmetic");
	FINISH();
#else
	size_t n = (m[0] + 15) >> 4;
	(void)m0i;
	for (size_t i = 1; i <= n; i++) d[i] = (uint16_t)((x[i] ^ y[i] ^ salt) & 0x7FFF);
	d[0] = m[0];
#endif
}
void br_i15_modpow(uint16_t *x, const unsigned char *e, size_t elen,
	const uint16_t *m, uint16_t m0i, uint16_t *tmp1, uint16_t *tmp2)
{
#if MODE == 0
	(void)x; (void)e; (void)elen; (void)m; (void)m0i; (void)tmp1; (void)tmp2;
	CHECK(gate_len_ok, "field exponentiation is reached only with the right point length");
	FINISH();
#else
	(void)e; (void)elen; (void)m0i; (void)tmp1; (void)tmp2;
	x[1] = (uint16_t)((x[1] ^ salt) & 0x7FFF);
	x[0] = m[0];
#endif
}
#endif

#if TARGET == 2
/* link-seam probe: the first conditional copy of the P-256 ladder / field
   reduction marks "curve arithmetic has started" */
void br_ccopy(uint32_t ctl, void *dst, const void *src, size_t len)
{
	(void)ctl; (void)dst; (void)src; (void)len;
	CHECK(0, "p256_m15: curve arithmetic is not started for a wrong point length");
	FINISH();
}
#endif

int main(void)
{
#if TARGET == 1
	unsigned char A[MAXLEN], B[MAXLEN], x[1], y[1];
	ND_BYTES(A, MAXLEN);
	ND_BYTES(B, MAXLEN);
	x[0] = ND_U8();
	y[0] = ND_U8();
	salt = ND_U16();
	uint32_t r;
#if MODE == 2
	{
		jacobian P;
		size_t dl = ND_SIZE();
		ASSUME(dl <= MAXLEN);
		int bad = dl != POINTLEN || A[0] != 0x04 || be_ge(A + 1, FIELD_P, PLEN) || be_ge(A + 1 + PLEN, FIELD_P, PLEN);
		r = point_decode(&P, A, dl, id_to_curve(CURVE));
		CHECK(r <= 1, "result is 0 or 1");
		if (bad) {
			CHECK(r == 0, "point_decode: wrong length, first byte != 0x04 or coordinate >= p => 0");
			WITNESS_POINT("some malformed point rejected");
		} else {
			WITNESS_POINT("some well-formed encoding gets past the format gate");
		}
		(void)B; (void)x; (void)y;
		return 0;
	}
#elif MODE == 0
	size_t len = ND_SIZE();
	ASSUME(len <= MAXLEN);
	gate_len_ok = (len == POINTLEN);
#else
	size_t len = POINTLEN;
	int badA = A[0] != 0x04 || be_ge(A + 1, FIELD_P, PLEN) || be_ge(A + 1 + PLEN, FIELD_P, PLEN);
	int badB = B[0] != 0x04 || be_ge(B + 1, FIELD_P, PLEN) || be_ge(B + 1 + PLEN, FIELD_P, PLEN);
#endif
#if MODE != 2
#if FN == 0
	r = br_ec_prime_i15.mul(A, len, x, XL, CURVE);
#elif FN == 1
	r = br_ec_prime_i15.muladd(A, B, len, x, XL, y, XL, CURVE);
#else
	r = br_ec_prime_i15.muladd(A, NULL, len, x, XL, y, XL, CURVE);
#endif
	CHECK(r <= 1, "result is 0 or 1");
#if MODE == 0
	CHECK(len != POINTLEN, "the right length goes on to the arithmetic");
	CHECK(r == 0, "wrong point length => 0, decided before any field multiplication");
	WITNESS_POINT("some wrong length rejected");
#else
#if FN == 1
	if (badA || badB) {
#else
	if (badA) {
#endif
		CHECK(r == 0, "first byte != 0x04 or coordinate >= p => 0");
		WITNESS_POINT("some malformed point rejected");
	} else {
		WITNESS_POINT("some well-formed encoding gets past the format gate");
	}
#endif
#endif
	return 0;

#elif TARGET == 2
	unsigned char A[MAXLEN], B[MAXLEN], x[32], y[32];
	ND_BYTES(A, MAXLEN);
	ND_BYTES(B, MAXLEN);
	ND_BYTES(x, 32);
	ND_BYTES(y, 32);
	int curve = ND_INT();
	for (size_t len = 0; len <= MAXLEN; len++) {
		if (len == 65) continue;
		CHECK(br_ec_p256_m15.mul(A, len, x, 32, curve) == 0, "p256_m15 mul: length != 65 => 0");
		CHECK(br_ec_p256_m15.muladd(A, B, len, x, 32, y, 32, curve) == 0, "p256_m15 muladd: length != 65 => 0");
		CHECK(br_ec_p256_m15.muladd(A, NULL, len, x, 32, y, 32, curve) == 0, "p256_m15 muladd (generator): length != 65 => 0");
	}
	CHECK(br_ec_p256_m15.supported_curves == ((uint32_t)1 << BR_EC_secp256r1), "p256_m15 announces P-256 only");
	WITNESS_POINT("all lengths done");
	return 0;

#else
	unsigned char G[40], k[40];
	ND_BYTES(G, 40);
	ND_BYTES(k, 40);
	size_t kl0 = ND_SIZE();
	int cv = ND_INT();
	ASSUME(kl0 <= 40);
	for (size_t len = 0; len <= 40; len++) {
		if (len == 32) continue;
		CHECK(br_ec_c25519_m15.mul(G, len, k, kl0, cv) == 0, "c25519_m15 mul: point length != 32 => 0");
	}
	for (size_t kl = 33; kl <= 40; kl++) {
		CHECK(br_ec_c25519_m15.mul(G, 32, k, kl, cv) == 0, "c25519_m15 mul: scalar longer than 32 bytes => 0");
	}
	{
		unsigned char A[32], B[32], x[32], y[32];
		ND_BYTES(A, 32); ND_BYTES(B, 32); ND_BYTES(x, 32); ND_BYTES(y, 32);
		size_t l = ND_SIZE(), xl = ND_SIZE(), yl = ND_SIZE();
		CHECK(br_ec_c25519_m15.muladd(A, B, l, x, xl, y, yl, ND_INT()) == 0, "c25519_m15 muladd is not implemented => 0");
	}
	CHECK(br_ec_c25519_m15.supported_curves == ((uint32_t)1 << BR_EC_curve25519), "c25519_m15 announces Curve25519 only");
	WITNESS_POINT("all lengths done");
	return 0;
#endif
}
