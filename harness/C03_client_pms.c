/*
 * C03 / C01 (client side): make_pms_rsa of ssl_hs_client.c - the RSA key
 * exchange message.  The premaster secret must carry the client's MAXIMUM
 * offered version (ClientHello version, RFC 5246 7.4.7.1: rollback detection),
 * not the negotiated one; the value encrypted with the server's certified key
 * is 00 02 PS(non-zero) 00 || premaster; the master secret is derived from
 * exactly those 48 bytes.
 * -DNL=<n> stored modulus length, -DNZ=<k> leading zero bytes among them.
 */
#include "common.h"
#include "inner.h"

#ifndef NL
#define NL 64
#endif
#ifndef NZ
#define NZ 0
#endif

#define SYMN (46 + (NL - NZ > 51 ? NL - NZ - 51 : 0))
static unsigned char drbg_stream[SYMN]; static size_t drbg_pos; static int drbg_calls;
void br_hmac_drbg_generate(br_hmac_drbg_context *ctx, void *out, size_t len)
{
	(void)ctx; drbg_calls++;
	for (size_t i = 0; i < len; i++) { ((unsigned char *)out)[i] = (drbg_pos < SYMN) ? drbg_stream[drbg_pos] : 0x5A; drbg_pos++; }
}
static unsigned char cm_pms[48]; static size_t cm_len; static int cm_calls, cm_prf;
void br_ssl_engine_compute_master(br_ssl_engine_context *cc, int prf_id, const void *pms, size_t len)
{
	(void)cc; cm_calls++; cm_prf = prf_id; cm_len = len;
	for (size_t i = 0; i < len && i < 48; i++) cm_pms[i] = ((const unsigned char *)pms)[i];
}

#include "src/ssl/ssl_hs_client.c"

static br_x509_pkey *the_keyp;   /* the key object is a local of main: a zero-initialised static with a union member defeats constant propagation */
#define the_key (*the_keyp)
typedef struct { const br_x509_class *vtable; } xstub_ctx;
static const br_x509_pkey *xs_get_pkey(const br_x509_class *const *c, unsigned *usages) { (void)c; (void)usages; return &the_key; }
static const br_x509_class xstub_vtable = { sizeof(xstub_ctx), 0, 0, 0, 0, 0, xs_get_pkey };

static int pub_calls, pub_ok; static unsigned char pub_block[NL]; static size_t pub_len; static const void *pub_buf, *pub_key;
static uint32_t stub_rsapub(unsigned char *x, size_t xlen, const br_rsa_public_key *pk)
{
	pub_calls++; pub_buf = x; pub_len = xlen; pub_key = pk;
	for (size_t i = 0; i < xlen && i < NL; i++) pub_block[i] = x[i];
	return (uint32_t)pub_ok;
}

int main(void)
{
	br_ssl_client_context cctx;
	br_x509_pkey key_obj;
	xstub_ctx xs;
	const br_x509_class **xsp = &xs.vtable;
	static unsigned char nbuf[NL];
#ifdef NATIVE_REPLAY
	NATIVE_FILL(&cctx, sizeof cctx);
#endif
	the_keyp = &key_obj;
	xs.vtable = &xstub_vtable;
	cctx.eng.x509ctx = xsp;
	cctx.irsapub = stub_rsapub;
	cctx.eng.version_max = ND_U16();
	cctx.eng.session.version = ND_U16();
	cctx.eng.version_in = ND_U16();
	cctx.eng.version_out = ND_U16();
	/* the stub DRBG hands out symbolic bytes; the padding bytes it is asked for one at a time are non-zero */
	ND_BYTES(drbg_stream, SYMN);
	/* padding bytes drawn in bulk are assumed non-zero (the one-byte redraw loop is then not entered: keeps the stub's read position concrete) */
	for (size_t i = 46; i < SYMN; i++) ASSUME(drbg_stream[i] != 0);
	for (int i = 0; i < NZ; i++) nbuf[i] = 0;
	for (int i = NZ; i < NL; i++) nbuf[i] = (unsigned char)(0x81 + i);   /* modulus value is irrelevant here; concrete keeps its length concrete */
	the_key.key_type = BR_KEYTYPE_RSA;
	the_key.key.rsa.n = nbuf; the_key.key.rsa.nlen = NL;
	pub_ok = ND_U8() & 1;
	int prf = ND_U8();
	const size_t nlen = NL - NZ;

	int r = make_pms_rsa(&cctx, prf);

#if (NL - NZ) < 59
	CHECK(r == -BR_ERR_X509_WEAK_PUBLIC_KEY && pub_calls == 0 && cm_calls == 0, "a modulus too short for a 48-byte premaster is refused");
	WITNESS_POINT("short modulus");
	return 0;
#else
	CHECK(pub_calls == 1 && pub_buf == cctx.eng.pad && pub_len == nlen && pub_key == &the_key.key.rsa, "one public-key operation, over the pad, with the true modulus length and the validator's key");
	CHECK(r == (pub_ok ? (int)nlen : -BR_ERR_LIMIT_EXCEEDED), "returns the message length, or an error when the public-key operation fails");
	CHECK(pub_block[0] == 0x00 && pub_block[1] == 0x02 && pub_block[nlen - 49] == 0x00, "PKCS#1 v1.5 type 2 block: 00 02 PS 00 premaster");
	for (size_t u = 2; u < NL; u++) if (u < nlen - 49) CHECK(pub_block[u] != 0, "padding string has no zero byte");
	CHECK(pub_block[nlen - 48] == (unsigned char)(cctx.eng.version_max >> 8) && pub_block[nlen - 47] == (unsigned char)cctx.eng.version_max, "premaster starts with the client's maximum offered version (rollback detection)");
	CHECK(cm_calls == 1 && cm_len == 48 && cm_prf == prf, "master secret derived once from 48 bytes with the suite's PRF");
	for (int i = 0; i < 48; i++) CHECK(cm_pms[i] == pub_block[nlen - 48 + i], "master secret derived from exactly the premaster that is sent");
	for (int i = 0; i < 46; i++) CHECK(cm_pms[2 + i] == drbg_stream[i], "46 premaster bytes come from the engine's DRBG");
	if (pub_ok) { WITNESS_POINT("message built"); } else { WITNESS_POINT("public-key operation failed"); }
	return 0;
#endif
}
