/*
 * C18 (T0 part): set-rsa-key / set-ec-key of pkey_decoder.c (-DC18_KEY_pkey)
 * and skey_decoder.c (-DC18_KEY_skey) (E2 extraction): the key structure
 * returned to the caller describes exactly the elements the T0 code decoded
 * into key_data -- consecutive, in order, with the decoded lengths, inside
 * key_data.
 * -DMODE=0 set-rsa-key, -DMODE=1 set-ec-key.  Element lengths symbolic with
 * sum <= sizeof key_data (they were read into key_data under that limit).
 */
#define T0N_PRE_INCLUDE "C05_t0f.h"
#define T0N_NO_RUN 1
#if defined(C18_KEY_pkey)
#include "t0n_pkey.c"
#include "t0n_pkey_ops.h"
#else
#include "t0n_skey.c"
#include "t0n_skey_ops.h"
#endif
void T0N_RUN_FN(void *t0ctx) { (void)t0ctx; }
#ifndef MODE
#define MODE 0
#endif

int
main(void)
{
	T0N_CTXT cc;
	T0N_CTXT *c = &cc;
	uint32_t d0;
	unsigned kt0 = ND_U8();
	int err0 = ND_INT();
#ifdef NATIVE_REPLAY
	NATIVE_FILL(c, sizeof *c);
#endif
	T0F_DEPTH_AT(8);
	d0 = t0n_dpi;
	t0n_co = 0;
	c->key_type = (unsigned char)kt0; c->err = err0;
#if MODE == 0
#if defined(C18_KEY_pkey)
	{
		uint32_t nlen = ND_U32(), elen = ND_U32();
		ASSUME(nlen <= sizeof c->key_data && elen <= sizeof c->key_data - nlen);
		T0F_PUSH(c, nlen); T0F_PUSH(c, elen);
		C05_DISPATCH(c, C05_OP_set_rsa_key);
		CHECK(t0n_dpi == d0 && t0n_co == 0, "both operands consumed");
		CHECK(c->key.rsa.n == c->key_data && c->key.rsa.nlen == nlen, "modulus = first nlen bytes of key_data");
		CHECK(c->key.rsa.e == c->key_data + nlen && c->key.rsa.elen == elen, "public exponent = the elen bytes that follow");
		CHECK(c->key.rsa.e + c->key.rsa.elen <= c->key_data + sizeof c->key_data, "key inside key_data");
		WITNESS_POINT("RSA public key set");
	}
#else
	{
		uint32_t nb = ND_U32(), l[5], off = 0;
		const unsigned char *p[5]; size_t pl[5];
		int k;
		for (k = 0; k < 5; k ++) { l[k] = ND_U32(); ASSUME(l[k] <= sizeof c->key_data - off); off += l[k]; }
		T0F_PUSH(c, nb);
		for (k = 0; k < 5; k ++) T0F_PUSH(c, l[k]);
		C05_DISPATCH(c, C05_OP_set_rsa_key);
		CHECK(t0n_dpi == d0 && t0n_co == 0, "six operands consumed");
		CHECK(c->key.rsa.n_bitlen == nb, "modulus bit length as decoded");
		p[0] = c->key.rsa.p; p[1] = c->key.rsa.q; p[2] = c->key.rsa.dp; p[3] = c->key.rsa.dq; p[4] = c->key.rsa.iq;
		pl[0] = c->key.rsa.plen; pl[1] = c->key.rsa.qlen; pl[2] = c->key.rsa.dplen; pl[3] = c->key.rsa.dqlen; pl[4] = c->key.rsa.iqlen;
		off = 0;
		for (k = 0; k < 5; k ++) {
			CHECK(p[k] == c->key_data + off && pl[k] == l[k], "p, q, dp, dq, iq: consecutive in key_data, in that order, with the decoded lengths");
			off += l[k];
		}
		CHECK(off <= sizeof c->key_data, "key inside key_data");
		WITNESS_POINT("RSA private key set");
	}
#endif
#else
	{
		uint32_t curve = ND_U32(), ql = ND_U32();
		ASSUME(ql <= sizeof c->key_data);
		T0F_PUSH(c, curve); T0F_PUSH(c, ql);
		C05_DISPATCH(c, C05_OP_set_ec_key);
		CHECK(t0n_dpi == d0 && t0n_co == 0, "both operands consumed");
#if defined(C18_KEY_pkey)
		CHECK(c->key.ec.curve == (int)curve && c->key.ec.q == c->key_data && c->key.ec.qlen == ql, "EC public key: curve, point = first qlen bytes of key_data");
#else
		CHECK(c->key.ec.curve == (int)curve && c->key.ec.x == c->key_data && c->key.ec.xlen == ql, "EC private key: curve, scalar = first xlen bytes of key_data");
#endif
		WITNESS_POINT("EC key set");
	}
#endif
	CHECK(c->key_type == kt0 && c->err == err0, "key type and error status are not touched by these words");
	return 0;
}
