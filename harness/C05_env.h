/*
 * C05_env.h -- per-program environment of the C05 layer-2 / E4 measurement
 * harness (C05_native.c): what surrounds one native word.
 *
 *   c05_env(ctx)       pointer fields of the context = small valid regions or
 *                      contract stubs; context invariants ASSUMED
 *   c05_post(ctx, op)  the same invariants CHECKed after the native (inductive)
 *
 * Every ASSUME in this file is listed in checks/C05.py META["assumptions"].
 */
#ifndef C05_ENV_H
#define C05_ENV_H

#if defined(C05_KEY_hsc) || defined(C05_KEY_hss)
/* handshake programs: "failed" = the engine is closed (br_ssl_engine_fail, also with error code 0 =
   clean closure); the engine never resumes the coroutine once closed (C06) */
#define C05_ERRF(c)  ((c)->eng.iomode == BR_IO_FAILED)
#else
#define C05_ERRF(c)  ((c)->err)
#endif

/* hbuf/hlen: any sub-region of a C05_HB-byte chunk (possibly empty) */
#define C05_IN_REGION(hbuf_, hlen_) do { \
		size_t off_ = ND_SIZE(), n_ = ND_SIZE(); \
		ASSUME(off_ <= C05_HB && n_ <= C05_HB - off_); \
		(hbuf_) = c05_in + off_; (hlen_) = n_; \
	} while (0)
#define C05_IN_REGION_OK(hbuf_, hlen_) \
	((hbuf_) >= c05_in && (hbuf_) <= c05_in + C05_HB && (hlen_) <= (size_t)(c05_in + C05_HB - (hbuf_)))

/* stated call-site preconditions shared by all programs */
static void
c05_env_common(T0N_CTXT *c)
{
	(void)c;
	/* shift counts of the T0 code are 0..31 (literals at most call sites; stated for the others) */
#ifdef C05_OP_lt_lt
	if (OP == C05_OP_lt_lt) { ASSUME(C05_TOP(0) <= 31); }
#endif
#ifdef C05_OP_gt_gt
	if (OP == C05_OP_gt_gt) { ASSUME(C05_TOP(0) <= 31); }
#endif
#ifdef C05_OP_u_gt_gt
	if (OP == C05_OP_u_gt_gt) { ASSUME(C05_TOP(0) <= 31); }
#endif
#ifdef C05_OP_data_get8
	/* data-get8: the T0 code walks the constant data block from literal start offsets up to a terminator */
	if (OP == C05_OP_data_get8) {
		ASSUME(C05_TOP(0) < sizeof t0_datablock);
	}
#endif
}

/* ================================================================== pkey / skey */
#if defined(C05_KEY_pkey) || defined(C05_KEY_skey)
static void
c05_env(T0N_CTXT *c)
{
	C05_IN_REGION(c->hbuf, c->hlen);
	/* stated call-site preconditions: the element lengths handed to set-*-key were
	   read (read-integer / read-blob) under the key_data length limit of the bytecode */
#if defined(C05_KEY_pkey)
	if (OP == C05_OP_set_rsa_key) {
		ASSUME(t0n_dpi >= 2);
		ASSUME(C05_TOP(1) <= C05_REGION_LEN_key_data && C05_TOP(0) <= C05_REGION_LEN_key_data - C05_TOP(1));
	}
#else
	if (OP == C05_OP_set_rsa_key) {
		uint32_t k, sum = 0;
		ASSUME(t0n_dpi >= 6);
		for (k = 0; k < 5; k ++) {
			ASSUME(C05_TOP(k) <= C05_REGION_LEN_key_data - sum);
			sum += C05_TOP(k);
		}
	}
#endif
}
static void
c05_post(T0N_CTXT *c, unsigned op)
{
	(void)op;
	CHECK(C05_IN_REGION_OK(c->hbuf, c->hlen), "input cursor stays inside the chunk given by the caller");
	/* status consistency (property text: an error or a result, never both) */
#if defined(C05_KEY_pkey)
	{
		int e = br_pkey_decoder_last_error(c);
		int kt = br_pkey_decoder_key_type(c);
		CHECK(!(e != 0 && (kt != 0 || br_pkey_decoder_get_rsa(c) != NULL || br_pkey_decoder_get_ec(c) != NULL)),
			"status consistency: last_error != 0 excludes key_type != 0 / get_rsa / get_ec");
	}
#else
	{
		int e = br_skey_decoder_last_error(c);
		int kt = br_skey_decoder_key_type(c);
		CHECK(!(e != 0 && (kt != 0 || br_skey_decoder_get_rsa(c) != NULL || br_skey_decoder_get_ec(c) != NULL)),
			"status consistency: last_error != 0 excludes key_type != 0 / get_rsa / get_ec");
	}
#endif
}
#endif

/* ================================================================== x509 decoder */
#if defined(C05_KEY_x509dec)
static int c05_cb_calls;
static void
c05_append(void *cctx, const void *buf, size_t len)
{
	(void)cctx;
	c05_cb_calls ++;
	c05_need_r(buf, len);
}
static void
c05_env(T0N_CTXT *c)
{
	C05_IN_REGION(c->hbuf, c->hlen);
	if (ND_U8() & 1) { c->append_dn = c05_append; } else { c->append_dn = 0; }
	if (ND_U8() & 1) { c->append_in = c05_append; } else { c->append_in = 0; }
	c->append_dn_ctx = 0;
	c->append_in_ctx = 0;
	/* stated: the two integers were read into pkey_data under its length limit */
	if (OP == C05_OP_copy_rsa_pkey) {
		ASSUME(C05_TOP(1) <= C05_REGION_LEN_pkey_data && C05_TOP(0) <= C05_REGION_LEN_pkey_data - C05_TOP(1));
	}
}
static void
c05_post(T0N_CTXT *c, unsigned op)
{
	(void)op;
	CHECK(C05_IN_REGION_OK(c->hbuf, c->hlen), "input cursor stays inside the chunk given by the caller");
}
#endif

/* ================================================================== x509 minimal */
#if defined(C05_KEY_x509min)
#ifndef C05_KB
#define C05_KB 12
#endif
static size_t c05_dnhash_len;
static void c05_h_init(const br_hash_class **hc) { (void)hc; }
static void c05_h_update(const br_hash_class **hc, const void *data, size_t len) { (void)hc; c05_need_r(data, len); }
static void c05_h_out(const br_hash_class *const *hc, void *dst) { (void)hc; c05_need_w(dst, c05_dnhash_len); }
static br_hash_class c05_hc;

/* link seam: the multi-hash engine (its own correctness is C13's) */
void br_multihash_init(br_multihash_context *ctx) { (void)ctx; }
void br_multihash_update(br_multihash_context *ctx, const void *data, size_t len) { (void)ctx; c05_need_r(data, len); }
size_t
br_multihash_out(const br_multihash_context *ctx, int id, void *dst)
{
	size_t n = ND_SIZE();
	(void)ctx; (void)id;
	ASSUME(n <= 64);
	c05_need_w(dst, n);
	return n;
}

static unsigned char c05_ta_dn[8], c05_ta_k1[8], c05_ta_k2[8], c05_ta_dyn_dn[64];
static br_x509_trust_anchor c05_ta[1], c05_ta_dyn;
static unsigned char c05_ne_oid[12], c05_ne_buf[8];
static br_name_element c05_ne[1];
static char c05_sname[8];
static int c05_free_calls;

static void
c05_anchor(br_x509_trust_anchor *ta, unsigned char *dn, size_t dnmax, int exact)
{
	size_t l = ND_SIZE();
	ASSUME(l <= dnmax);
	ta->dn.data = dn;
	ta->dn.len = exact ? dnmax : l;
	ta->flags = ND_U32();
	ta->pkey.key_type = ND_U8();
	if ((ta->pkey.key_type & 0x0F) == BR_KEYTYPE_EC) {
		size_t q = ND_SIZE();
		ASSUME(q <= sizeof c05_ta_k1);
		ta->pkey.key.ec.curve = ND_INT();
		ta->pkey.key.ec.q = c05_ta_k1;
		ta->pkey.key.ec.qlen = q;
	} else {
		size_t n = ND_SIZE(), e = ND_SIZE();
		ASSUME(n <= sizeof c05_ta_k1 && e <= sizeof c05_ta_k2);
		ta->pkey.key.rsa.n = c05_ta_k1;
		ta->pkey.key.rsa.nlen = n;
		ta->pkey.key.rsa.e = c05_ta_k2;
		ta->pkey.key.rsa.elen = e;
	}
}
static const br_x509_trust_anchor *
c05_dyn(void *dctx, void *hashed_dn, size_t hashed_dn_len)
{
	(void)dctx;
	c05_need_r(hashed_dn, hashed_dn_len);
	CHECK(hashed_dn_len == c05_dnhash_len, "dynamic anchor lookup is given a hash of the DN-hash length");
	if (ND_U8() & 1) { return &c05_ta_dyn; }
	return 0;
}
static void
c05_dyn_free(void *dctx, const br_x509_trust_anchor *ta)
{
	(void)dctx;
	c05_free_calls ++;
	CHECK(ta == &c05_ta_dyn, "free callback receives the anchor the lookup returned");
}
static uint32_t
c05_irsa(const unsigned char *x, size_t xlen, const unsigned char *hash_oid, size_t hash_len,
	const br_rsa_public_key *pk, unsigned char *hash_out)
{
	c05_need_r(x, xlen);
	c05_need_r(hash_oid, hash_len);     /* the port hands a hash_len-byte copy of the OID area */
	c05_need_r(pk->n, pk->nlen);
	c05_need_r(pk->e, pk->elen);
	c05_need_w(hash_out, hash_len);
	return ND_U32();
}
static uint32_t
c05_iecdsa(const br_ec_impl *impl, const void *hash, size_t hash_len, const br_ec_public_key *pk,
	const void *sig, size_t sig_len)
{
	(void)impl;
	c05_need_r(hash, hash_len);
	c05_need_r(pk->q, pk->qlen);
	c05_need_r(sig, sig_len);
	return ND_U32();
}
static int
c05_itime(void *tctx, uint32_t nbd, uint32_t nbs, uint32_t nad, uint32_t nas)
{
	(void)tctx; (void)nbd; (void)nbs; (void)nad; (void)nas;
	return ND_INT();
}

/* context invariant of br_x509_minimal_context (established by the T0 code with
   literal operands / by copy-ee-*-pkey; preserved by every native: c05_post) */
static int
c05_inv(const T0N_CTXT *c)
{
	if (!C05_IN_REGION_OK(c->hbuf, c->hlen)) return 0;
	if (c->cert_sig_len > sizeof c->cert_sig) return 0;
	if (c->cert_sig_hash_len > 64) return 0;
	if ((size_t)c->cert_sig_hash_oid + 64 > sizeof t0_datablock) return 0;
	if (c->pkey.key_type == BR_KEYTYPE_RSA) {
		if (c->pkey.key.rsa.n != c->ee_pkey_data) return 0;
		if (c->pkey.key.rsa.nlen > sizeof c->ee_pkey_data) return 0;
		if (c->pkey.key.rsa.elen > sizeof c->ee_pkey_data - c->pkey.key.rsa.nlen) return 0;
		if (c->pkey.key.rsa.e != c->ee_pkey_data + c->pkey.key.rsa.nlen) return 0;
	} else if (c->pkey.key_type == BR_KEYTYPE_EC) {
		if (c->pkey.key.ec.q != c->ee_pkey_data) return 0;
		if (c->pkey.key.ec.qlen > sizeof c->ee_pkey_data) return 0;
	} else if (c->pkey.key_type != 0) {
		return 0;
	}
	return 1;
}
static void
c05_env(T0N_CTXT *c)
{
	size_t ol;
	C05_IN_REGION(c->hbuf, c->hlen);
	/* DN hash: any hash class with 1..64 output bytes */
	c05_dnhash_len = ND_SIZE();
	ASSUME(c05_dnhash_len >= 1 && c05_dnhash_len <= 64);
	c05_hc.context_size = sizeof(br_sha512_context);
	c05_hc.desc = (uint32_t)c05_dnhash_len << BR_HASHDESC_OUT_OFF;
	c05_hc.init = c05_h_init;
	c05_hc.update = c05_h_update;
	c05_hc.out = c05_h_out;
	c->dn_hash_impl = &c05_hc;
	/* trust anchors: at most one static, optional dynamic lookup */
	ND_BYTES(c05_ta_dn, sizeof c05_ta_dn); ND_BYTES(c05_ta_k1, sizeof c05_ta_k1); ND_BYTES(c05_ta_k2, sizeof c05_ta_k2);
	c05_anchor(&c05_ta[0], c05_ta_dn, sizeof c05_ta_dn, 0);
	c05_anchor(&c05_ta_dyn, c05_ta_dyn_dn, sizeof c05_ta_dyn_dn, 1);
	c->trust_anchors = c05_ta;
	/* concrete anchor count (a symbolic count makes symbolic execution unroll the anchor loop, and the
	   key comparison loops inside it, up to the unwinding bound: measured 200 s instead of 10 s) */
#ifndef C05_NUM_TA
#define C05_NUM_TA 1
#endif
	c->trust_anchors_num = C05_NUM_TA;
	if (ND_U8() & 1) { c->trust_anchor_dynamic = c05_dyn; } else { c->trust_anchor_dynamic = 0; }
#ifdef C05_ONLY_STATIC_ANCHOR
	c->trust_anchor_dynamic = 0;
#endif
#ifdef C05_ONLY_DYNAMIC_ANCHOR
	c->trust_anchors_num = 0;
#endif
	if (ND_U8() & 1) { c->trust_anchor_dynamic_free = c05_dyn_free; } else { c->trust_anchor_dynamic_free = 0; }
	c->trust_anchor_dynamic_ctx = 0;
	if (ND_U8() & 1) { c->irsa = c05_irsa; } else { c->irsa = 0; }
	if (ND_U8() & 1) { c->iecdsa = c05_iecdsa; } else { c->iecdsa = 0; }
	c->iec = 0;
	if (ND_U8() & 1) { c->itime = c05_itime; } else { c->itime = 0; }
	c->itime_ctx = 0;
	/* name elements: at most one, 8-byte destination, well-formed requested OID */
	ND_BYTES(c05_ne_oid, sizeof c05_ne_oid);
	c05_ne[0].oid = c05_ne_oid;
	c05_ne[0].buf = (char *)c05_ne_buf;
	c05_ne[0].len = ND_SIZE();
	ASSUME(c05_ne[0].len >= 1 && c05_ne[0].len <= sizeof c05_ne_buf);
	c05_ne[0].status = ND_INT();
	ol = (c05_ne_oid[0] == 0 && c05_ne_oid[1] == 0) ? (size_t)c05_ne_oid[2] + 3 : (size_t)c05_ne_oid[0] + 1;
	ASSUME(ol <= sizeof c05_ne_oid);
	ASSUME((size_t)c05_ne_oid[0] + 1 <= sizeof c05_ne_oid);
	c->name_elts = c05_ne;
	c->num_name_elts = ND_U8() & 1;
	/* expected server name: NULL or a NUL-terminated string of at most 7 characters */
	{ size_t i; for (i = 0; i + 1 < sizeof c05_sname; i ++) c05_sname[i] = (char)ND_U8(); c05_sname[sizeof c05_sname - 1] = 0; }
	if (ND_U8() & 1) { c->server_name = c05_sname; } else { c->server_name = 0; }
	/* context invariant, constructed (so that a counterexample replays natively):
	   decoded EE key = nothing / RSA / EC inside ee_pkey_data; key parts bounded by C05_KB where
	   the native loops over them (comparison with a trust anchor) */
	{
		unsigned kt = ND_U8();
		size_t a = ND_SIZE(), b = ND_SIZE();
		ASSUME(kt == 0 || kt == BR_KEYTYPE_RSA || kt == BR_KEYTYPE_EC);
#ifdef C05_KEYLEN_ENUM
		/* quick tier: key part lengths drawn from {0, 1, 5} x {0, 1, 3} (a fully symbolic split point
		   inside the 3200-byte context costs minutes; thorough tier: any lengths <= C05_KB) */
		a = (a % 3 == 0) ? 0 : (a % 3 == 1) ? 1 : 5;
		b = (b % 3 == 0) ? 0 : (b % 3 == 1) ? 1 : 3;
#endif
		ASSUME(a <= C05_KB && b <= C05_KB);
		c->pkey.key_type = (unsigned char)kt;
		if (kt == BR_KEYTYPE_RSA) {
			c->pkey.key.rsa.n = c->ee_pkey_data; c->pkey.key.rsa.nlen = a;
			c->pkey.key.rsa.e = c->ee_pkey_data + a; c->pkey.key.rsa.elen = b;
		} else if (kt == BR_KEYTYPE_EC) {
			c->pkey.key.ec.curve = ND_INT();
			c->pkey.key.ec.q = c->ee_pkey_data; c->pkey.key.ec.qlen = a;
		}
	}
	ASSUME(c->cert_sig_len <= sizeof c->cert_sig);
	ASSUME(c->cert_sig_hash_len <= 64);
	ASSUME((size_t)c->cert_sig_hash_oid + 64 <= sizeof t0_datablock);
	ASSUME(c05_inv(c));
	/* ---- stated call-site preconditions ---- */
	/* lengths of the key elements read into pkey_data under its length limit */
	if (OP == C05_OP_copy_ee_rsa_pkey || OP == C05_OP_do_rsa_vrfy) {
		ASSUME(C05_TOP(1) <= C05_REGION_LEN_pkey_data && C05_TOP(0) <= C05_REGION_LEN_pkey_data - C05_TOP(1));
	}
	if (OP == C05_OP_copy_ee_ec_pkey || OP == C05_OP_do_ecdsa_vrfy) {
		ASSUME(C05_TOP(0) <= C05_REGION_LEN_pkey_data);
	}
	/* copy-name-element: the offset comes from offset-name-element (-1 or an index below num_name_elts) */
	if (OP == C05_OP_copy_name_element) {
		ASSUME((int32_t)C05_TOP(0) < 0 || C05_TOP(0) < c->num_name_elts);
	}
	/* shift counts of the T0 code are 0..31 */
	if (OP == C05_OP_lt_lt || OP == C05_OP_gt_gt) {
		ASSUME(C05_TOP(0) <= 31);
	}
	/* values stored into the fields of the context invariant: signature length checked against
	   BR_X509_BUFSIZE_SIG just before; hash OID offset = one of the OID literals of the data block;
	   hash length = result of compute-tbs-hash (<= 64) */
	if (OP == C05_OP_set16 && C05_TOP(0) == offsetof(T0N_CTXT, cert_sig_len)) {
		ASSUME(C05_TOP(1) <= C05_REGION_LEN_cert_sig);
	}
	if (OP == C05_OP_set16 && C05_TOP(0) == offsetof(T0N_CTXT, cert_sig_hash_oid)) {
		ASSUME((size_t)C05_TOP(1) + 64 <= sizeof t0_datablock);
	}
	if (OP == C05_OP_set8 && C05_TOP(0) == offsetof(T0N_CTXT, cert_sig_hash_len)) {
		ASSUME(C05_TOP(1) <= 64);
	}
}
static void
c05_post(T0N_CTXT *c, unsigned op)
{
	(void)op;
	CHECK(c05_inv(c), "context invariant (input cursor, cert_sig_len, signature hash OID/len, EE key pointers) preserved");
	CHECK(c05_free_calls <= 1, "dynamic anchor freed at most once");
}
#endif

/* ================================================================== PEM decoder */
#if defined(C05_KEY_pem)
static int c05_dest_calls;
static void
c05_dest(void *dctx, const void *src, size_t len)
{
	(void)dctx;
	c05_dest_calls ++;
	c05_need_r(src, len);
	CHECK(len >= 1 && len <= sizeof ((T0N_CTXT *)0)->buf, "decoded data handed to the callback in chunks of 1..255 bytes");
}
static void
c05_env(T0N_CTXT *c)
{
	C05_IN_REGION(c->hbuf, c->hlen);
	if (ND_U8() & 1) { c->dest = c05_dest; } else { c->dest = 0; }
	c->dest_ctx = 0;
	ASSUME(c->ptr < sizeof c->buf);         /* invariant, re-checked in c05_post */
}
static void
c05_post(T0N_CTXT *c, unsigned op)
{
	(void)op;
	CHECK(C05_IN_REGION_OK(c->hbuf, c->hlen), "input cursor stays inside the chunk given by the caller");
	CHECK(c->ptr < sizeof c->buf, "invariant: output buffer fill level below the buffer size");
}
#endif

#if defined(C05_KEY_hsc) || defined(C05_KEY_hss)
#include "C05_env_hs.h"
#endif

#endif
