/*
 * Cheap deterministic stand-ins used behind BearSSL's own seams by the
 * record-layer harnesses (DESIGN.md 1.3 (b)):
 *   - toy CBC block "ciphers" (block size TOY_BLK, x -> x ^ K, real CBC
 *     chaining on top) with the real br_block_cbcenc/cbcdec_class layout;
 *   - a toy MAC bound at the link-time seam br_hmac_* (16 one-byte lanes,
 *     add / rotate-by-one-xor; the key, every input byte, its position and
 *     the total length influence the output).
 * They are not the units under test.
 */
#ifndef STUBS_REC_H
#define STUBS_REC_H
#include "inner.h"

#ifndef TOY_BLK
#define TOY_BLK 16
#endif
#if TOY_BLK == 16
#define TOY_LOGBLK 4
#else
#define TOY_LOGBLK 3
#endif

typedef struct { const br_block_cbcdec_class *vtable; unsigned char k[TOY_BLK]; } toy_cbcdec;
typedef struct { const br_block_cbcenc_class *vtable; unsigned char k[TOY_BLK]; } toy_cbcenc;
static const br_block_cbcdec_class toy_cbcdec_vtable;
static const br_block_cbcenc_class toy_cbcenc_vtable;

static void toy_cbcdec_init(const br_block_cbcdec_class **c, const void *key, size_t len)
{
	toy_cbcdec *cc = (void *)c;
	cc->vtable = &toy_cbcdec_vtable;
	for (int i = 0; i < TOY_BLK; i++) cc->k[i] = ((const unsigned char *)key)[i % len];
}
static void toy_cbcdec_run(const br_block_cbcdec_class *const *c, void *iv, void *data, size_t len)
{
	const toy_cbcdec *cc = (const void *)c;
	unsigned char *buf = data, *ivb = iv;
	for (size_t u = 0; u + TOY_BLK <= len; u += TOY_BLK) {
		unsigned char t[TOY_BLK];
		for (int i = 0; i < TOY_BLK; i++) t[i] = buf[u + i];
		for (int i = 0; i < TOY_BLK; i++) buf[u + i] = (unsigned char)(buf[u + i] ^ cc->k[i] ^ ivb[i]);
		for (int i = 0; i < TOY_BLK; i++) ivb[i] = t[i];
	}
}
static void toy_cbcenc_init(const br_block_cbcenc_class **c, const void *key, size_t len)
{
	toy_cbcenc *cc = (void *)c;
	cc->vtable = &toy_cbcenc_vtable;
	for (int i = 0; i < TOY_BLK; i++) cc->k[i] = ((const unsigned char *)key)[i % len];
}
static void toy_cbcenc_run(const br_block_cbcenc_class *const *c, void *iv, void *data, size_t len)
{
	const toy_cbcenc *cc = (const void *)c;
	unsigned char *buf = data, *ivb = iv;
	for (size_t u = 0; u + TOY_BLK <= len; u += TOY_BLK) {
		for (int i = 0; i < TOY_BLK; i++) buf[u + i] = (unsigned char)(buf[u + i] ^ ivb[i] ^ cc->k[i]);
		for (int i = 0; i < TOY_BLK; i++) ivb[i] = buf[u + i];
	}
}
static const br_block_cbcdec_class toy_cbcdec_vtable = { sizeof(toy_cbcdec), TOY_BLK, TOY_LOGBLK, toy_cbcdec_init, toy_cbcdec_run };
static const br_block_cbcenc_class toy_cbcenc_vtable = { sizeof(toy_cbcenc), TOY_BLK, TOY_LOGBLK, toy_cbcenc_init, toy_cbcenc_run };

#ifndef NO_TOY_HMAC
/*
 * Toy MAC at the br_hmac_* link seam.  State = 16 one-byte lanes kept in
 * kso[0..16) (keyed start value in ksi[0..16)), kso[16] = number of bytes
 * absorbed so far mod 16, kso[17..19) = total number of bytes absorbed.
 * Byte number p of the input goes to lane p mod 16:
 *     lane = (lane + byte + 1) ^ rotl8(next lane, 1)
 * (a bijection of the absorbing lane, so a difference in one input byte never
 * cancels; the neighbour term makes the lanes and hence the byte positions
 * interact).  Finalisation absorbs the total length into every lane, so the
 * output depends on every input byte, its position, the key and the length.
 * All operations are 8 bits wide: cheap for the SAT back ends, also in the
 * "constant-time" variant where the data length is symbolic (one 8-bit
 * multiplexer per byte).  br_hmac_out(update(data,len)) == br_hmac_outCT(data,len,..).
 */
static unsigned char toy_lane(unsigned char s, unsigned char next, unsigned b)
{
	return (unsigned char)((unsigned char)(s + b + 1) ^ (unsigned char)((next << 1) | (next >> 7)));
}
static void toy_fin(const unsigned char *lanes, size_t total, size_t n, unsigned char *out)
{
	unsigned char s[16];
	for (int i = 0; i < 16; i++) s[i] = lanes[i];
	for (int i = 0; i < 16; i++) s[i] = toy_lane(s[i], s[(i + 1) & 15], (unsigned char)(total >> ((i & 1) * 8)));
	for (int i = 0; i < 16; i++) s[i] = toy_lane(s[i], s[(i + 1) & 15], 0xA5);
	for (size_t i = 0; i < n; i++)
		out[i] = (unsigned char)(s[i & 15] + s[(i + 1 + (i >> 4)) & 15] + (i >> 4));
}
void br_hmac_key_init(br_hmac_key_context *kc, const br_hash_class *d, const void *key, size_t len)
{
	kc->dig_vtable = d;
	for (int i = 0; i < 16; i++) kc->ksi[i] = (unsigned char)(i + 1 + len);
	for (size_t i = 0; i < len; i++)
		kc->ksi[i & 15] = toy_lane(kc->ksi[i & 15], kc->ksi[(i + 1) & 15], ((const unsigned char *)key)[i]);
}
void br_hmac_init(br_hmac_context *ctx, const br_hmac_key_context *kc, size_t out_len)
{
	for (int i = 0; i < 16; i++) ctx->kso[i] = kc->ksi[i];
	ctx->kso[16] = ctx->kso[17] = ctx->kso[18] = 0;
	ctx->out_len = out_len;
}
void br_hmac_update(br_hmac_context *ctx, const void *data, size_t len)
{
	unsigned pos = ctx->kso[16];
	size_t total = (size_t)ctx->kso[17] | ((size_t)ctx->kso[18] << 8);
	for (size_t i = 0; i < len; i++) {
		unsigned l = (unsigned)((pos + i) & 15);
		ctx->kso[l] = toy_lane(ctx->kso[l], ctx->kso[(l + 1) & 15], ((const unsigned char *)data)[i]);
	}
	total += len;
	ctx->kso[16] = (unsigned char)((pos + len) & 15);
	ctx->kso[17] = (unsigned char)total;
	ctx->kso[18] = (unsigned char)(total >> 8);
}
size_t br_hmac_out(const br_hmac_context *ctx, void *out)
{
	toy_fin(ctx->kso, (size_t)ctx->kso[17] | ((size_t)ctx->kso[18] << 8), ctx->out_len, out);
	return ctx->out_len;
}
static size_t toy_outct_min, toy_outct_max; static int toy_outct_calls;   /* public range announced to the constant-time MAC */
size_t br_hmac_outCT(const br_hmac_context *ctx, const void *data, size_t len, size_t min_len, size_t max_len, void *out)
{
	unsigned char s[16];
	toy_outct_min = min_len; toy_outct_max = max_len; toy_outct_calls ++;
	unsigned pos = ctx->kso[16];
	size_t total = ((size_t)ctx->kso[17] | ((size_t)ctx->kso[18] << 8)) + len;
	__CPROVER_assert(min_len <= len && len <= max_len, "br_hmac_outCT precondition min_len <= len <= max_len");
	for (int i = 0; i < 16; i++) s[i] = ctx->kso[i];
	for (size_t i = 0; i < max_len; i++) {
		unsigned l = (unsigned)((pos + i) & 15);
		unsigned char t = toy_lane(s[l], s[(l + 1) & 15], ((const unsigned char *)data)[i]);
		s[l] = (i < len) ? t : s[l];
	}
	toy_fin(s, total & 0xFFFF, ctx->out_len, out);
	return ctx->out_len;
}
#endif
#endif
