/*
 * Cheap deterministic stand-ins used behind BearSSL's own seams by the
 * record-layer harnesses (DESIGN.md 1.3 (b)):
 *   - toy CBC block "ciphers" (block size TOY_BLK, x -> x ^ K, real CBC
 *     chaining on top) with the real br_block_cbcenc/cbcdec_class layout;
 *   - a toy MAC bound at the link-time seam br_hmac_* (sum / rotate-by-one
 *     accumulator; every input byte and its position influence the output).
 * They are not the units under test.
 */
#ifndef STUBS_REC_H
#define STUBS_REC_H
#include "inner.h"

#ifndef TOY_BLK
#define TOY_BLK 16
#endif
#if TOY_BLK == 16
#define TOY_LOGBLK 4
#else
#define TOY_LOGBLK 3
#endif

typedef struct { const br_block_cbcdec_class *vtable; unsigned char k[TOY_BLK]; } toy_cbcdec;
typedef struct { const br_block_cbcenc_class *vtable; unsigned char k[TOY_BLK]; } toy_cbcenc;
static const br_block_cbcdec_class toy_cbcdec_vtable;
static const br_block_cbcenc_class toy_cbcenc_vtable;

static void toy_cbcdec_init(const br_block_cbcdec_class **c, const void *key, size_t len)
{
	toy_cbcdec *cc = (void *)c;
	cc->vtable = &toy_cbcdec_vtable;
	for (int i = 0; i < TOY_BLK; i++) cc->k[i] = ((const unsigned char *)key)[i % len];
}
static void toy_cbcdec_run(const br_block_cbcdec_class *const *c, void *iv, void *data, size_t len)
{
	const toy_cbcdec *cc = (const void *)c;
	unsigned char *buf = data, *ivb = iv;
	for (size_t u = 0; u + TOY_BLK <= len; u += TOY_BLK) {
		unsigned char t[TOY_BLK];
		for (int i = 0; i < TOY_BLK; i++) t[i] = buf[u + i];
		for (int i = 0; i < TOY_BLK; i++) buf[u + i] = (unsigned char)(buf[u + i] ^ cc->k[i] ^ ivb[i]);
		for (int i = 0; i < TOY_BLK; i++) ivb[i] = t[i];
	}
}
static void toy_cbcenc_init(const br_block_cbcenc_class **c, const void *key, size_t len)
{
	toy_cbcenc *cc = (void *)c;
	cc->vtable = &toy_cbcenc_vtable;
	for (int i = 0; i < TOY_BLK; i++) cc->k[i] = ((const unsigned char *)key)[i % len];
}
static void toy_cbcenc_run(const br_block_cbcenc_class *const *c, void *iv, void *data, size_t len)
{
	const toy_cbcenc *cc = (const void *)c;
	unsigned char *buf = data, *ivb = iv;
	for (size_t u = 0; u + TOY_BLK <= len; u += TOY_BLK) {
		for (int i = 0; i < TOY_BLK; i++) buf[u + i] = (unsigned char)(buf[u + i] ^ ivb[i] ^ cc->k[i]);
		for (int i = 0; i < TOY_BLK; i++) ivb[i] = buf[u + i];
	}
}
static const br_block_cbcdec_class toy_cbcdec_vtable = { sizeof(toy_cbcdec), TOY_BLK, TOY_LOGBLK, toy_cbcdec_init, toy_cbcdec_run };
static const br_block_cbcenc_class toy_cbcenc_vtable = { sizeof(toy_cbcenc), TOY_BLK, TOY_LOGBLK, toy_cbcenc_init, toy_cbcenc_run };

#ifndef NO_TOY_HMAC
/* toy MAC at the br_hmac_* link seam; accumulator kept in kso[0..8) */
static uint64_t toy_mix(uint64_t a, unsigned b)
{
	uint32_t lo = (uint32_t)a + b + 1;
	uint32_t hi = (uint32_t)(a >> 32);
	hi = ((hi << 1) | (hi >> 31)) ^ b;
	return ((uint64_t)hi << 32) | lo;
}
void br_hmac_key_init(br_hmac_key_context *kc, const br_hash_class *d, const void *key, size_t len)
{
	uint64_t a = 1;
	kc->dig_vtable = d;
	for (size_t i = 0; i < len; i++) a = toy_mix(a, ((const unsigned char *)key)[i]);
	br_enc64le(kc->ksi, a);
}
void br_hmac_init(br_hmac_context *ctx, const br_hmac_key_context *kc, size_t out_len)
{
	for (int i = 0; i < 8; i++) ctx->kso[i] = kc->ksi[i];
	ctx->out_len = out_len;
}
void br_hmac_update(br_hmac_context *ctx, const void *data, size_t len)
{
	uint64_t a = br_dec64le(ctx->kso);
	for (size_t i = 0; i < len; i++) a = toy_mix(a, ((const unsigned char *)data)[i]);
	br_enc64le(ctx->kso, a);
}
static void toy_fin(uint64_t a, size_t n, unsigned char *out)
{
	for (size_t i = 0; i < n; i++) { a = toy_mix(a, 0xA5); out[i] = (unsigned char)((a >> 32) ^ (a >> 45) ^ a ^ (a >> 8)); }
}
size_t br_hmac_out(const br_hmac_context *ctx, void *out)
{
	toy_fin(br_dec64le(ctx->kso), ctx->out_len, out);
	return ctx->out_len;
}
size_t br_hmac_outCT(const br_hmac_context *ctx, const void *data, size_t len, size_t min_len, size_t max_len, void *out)
{
	__CPROVER_assert(min_len <= len && len <= max_len, "br_hmac_outCT precondition min_len <= len <= max_len");
	uint64_t a = br_dec64le(ctx->kso);
	for (size_t i = 0; i < max_len; i++) {
		uint64_t b = toy_mix(a, ((const unsigned char *)data)[i]);
		a = (i < len) ? b : a;
	}
	toy_fin(a, ctx->out_len, out);
	return ctx->out_len;
}
#endif
#endif
