/*
 * C12 Poly1305 (real poly1305_ctmul.c, poly1305_ctmul32.c, poly1305_i15.c):
 * br_poly1305_A_run == br_poly1305_B_run (tag and data) for every key, nonce,
 * DLEN data bytes, ALEN AAD bytes, encrypt flag; ChaCha20 is a cheap stand-in
 * bound at the function-pointer seam (the same one for both), which makes r and
 * s arbitrary (r is clamped by the implementations themselves).
 * PA, PB: 1 ctmul, 2 ctmul32, 3 i15.
 */
#include "common.h"
#include "inner.h"

/* stand-in for ChaCha20: key stream byte i of block cc = key[i % 32] ^ iv[i % 12] ^ cc ^ i */
static uint32_t
toy_chacha(const void *key, const void *iv, uint32_t cc, void *data, size_t len)
{
	const unsigned char *k = key, *n = iv;
	unsigned char *d = data;
	for (size_t i = 0; i < len; i++)
		d[i] ^= k[i & 31] ^ n[i % 12] ^ (unsigned char)(cc + (i >> 6)) ^ (unsigned char)i;
	return cc + (uint32_t)((len + 63) >> 6);
}

static void
run(int impl, const void *key, const void *iv, void *data, size_t len, const void *aad, size_t aad_len, void *tag, int enc)
{
	switch (impl) {
#if PA == 1 || PB == 1
	case 1: br_poly1305_ctmul_run(key, iv, data, len, aad, aad_len, tag, &toy_chacha, enc); break;
#endif
#if PA == 2 || PB == 2
	case 2: br_poly1305_ctmul32_run(key, iv, data, len, aad, aad_len, tag, &toy_chacha, enc); break;
#endif
#if PA == 3 || PB == 3
	case 3: br_poly1305_i15_run(key, iv, data, len, aad, aad_len, tag, &toy_chacha, enc); break;
#endif
	}
}

int main(void)
{
	unsigned char key[32], iv[12], d1[DLEN + 1], d2[DLEN + 1], aad[ALEN + 1], t1[16], t2[16];
	ND_BYTES(key, 32);
	ND_BYTES(iv, 12);
	for (int i = 0; i < DLEN; i++) d1[i] = d2[i] = ND_U8();
	ND_BYTES(aad, ALEN);
	int enc = ND_U8() & 1;
	run(PA, key, iv, d1, DLEN, aad, ALEN, t1, enc);
	run(PB, key, iv, d2, DLEN, aad, ALEN, t2, enc);
	for (int i = 0; i < 16; i++) CHECK(t1[i] == t2[i], "Poly1305 implementations produce the same tag");
	for (int i = 0; i < DLEN; i++) CHECK(d1[i] == d2[i], "same data");
	WITNESS_POINT("tags compared");
	return 0;
}
