/*
 * C09: multiplication-free big-integer routines of the i15 / i31 / i32
 * variants (-DW=15|31|32) against a reference on an explicit integer
 * (unsigned __int128).  One test per query (-DT_xxx); the announced bit
 * length (or byte length) runs over the concrete list -DLIST=a,b,c (or the
 * range LO..HI step STEP) inside the harness: every iteration has concrete sizes and exact-size
 * operand arrays (so an out-of-object access is reported), and fresh
 * symbolic contents.
 *
 *  T_DECODE   br_iXX_decode value + header, then br_iXX_encode round trip to
 *             the same / a shorter / a longer length   (LO..HI = byte length)
 *  T_ENCODE   br_iXX_encode of any value with announced length bl
 *  T_DECMOD   br_iXX_decode_mod: flag == (value < m), x == value or 0
 *  T_ADDSUB   br_iXX_add / br_iXX_sub: carry out of the top word, ctl = 0 no-op
 *  T_RSHIFT   br_i15/i31_rshift, every count 0..W-1
 *  T_BITLEN   br_iXX_bit_length                         (LO..HI = word count)
 *  T_MISC     br_iXX_iszero, br_iXX_zero
 *  T_NINV     br_i15_ninv15 / br_i31_ninv31 / br_i32_ninv32, every word
 */
#include "C09_ref.h"

#ifndef LO
#define LO 1
#endif
#ifndef HI
#define HI LO
#endif
#ifndef STEP
#define STEP 1
#endif

#if defined(T_DECODE)
static void
test(unsigned len)
{
	unsigned nw = NW(8 * len);
	unsigned char src[len + 1];	/* src[len] is never to be read: see below */
	word_t x[nw + 1];
	ND_BYTES(src, len);
	u128 V = be_val(src, len);
	for (unsigned i = 0; i <= nw; i++) x[i] = (word_t)ND_WORD();	/* junk to be overwritten */
	FN(decode)(x, src, len);
	CHECK(val(x, nw) == V, "decode: words hold the big-endian value");
	CHECK(words_ok(x, nw), "decode: every word in range");
	CHECK(dec_bl(x[0]) == bitlen(V, 8 * len), "decode: header announces the true bit length");
#if W != 32
	CHECK((x[0] & ((1u << HS) - 1)) <= W, "decode: header low part <= W");
#endif
	CHECK(NW(dec_bl(x[0])) == (((uint32_t)x[0] + W) >> HS) || W == 32, "decode: header word count consistent");
	/* round trip through encode: same length, one byte shorter (truncation), two longer (zero fill) */
	for (int v = 0; v < 3; v++) {
		unsigned l2 = (v == 0) ? len : (v == 1) ? (len ? len - 1 : 0) : len + 2;
		unsigned char dst[l2 + 1];
		ND_BYTES(dst, l2 + 1);
		unsigned char guard = dst[l2];
		FN(encode)(dst, l2, x);
		CHECK(be_is(dst, l2, V), "encode(decode(src)) == value mod 2^(8*len2)");
		CHECK(dst[l2] == guard, "encode writes exactly len2 bytes");
	}
}
#elif defined(T_ENCODE)
static void
test(unsigned bl)
{
	unsigned nw = NW(bl);
	word_t x[nw + 1];
	mk(x, bl, 0, 0);
	u128 V = val(x, nw);
	unsigned full = (bl + 7) / 8;
	for (int v = 0; v < 4; v++) {
		unsigned l2 = (v == 0) ? full : (v == 1) ? (full ? full - 1 : 0) : (v == 2) ? full + 3 : full / 2;
		unsigned char dst[l2 + 1];
		ND_BYTES(dst, l2 + 1);
		unsigned char guard = dst[l2];
		FN(encode)(dst, l2, x);
		CHECK(be_is(dst, l2, V), "encode == value mod 2^(8*len) big-endian, zero filled");
		CHECK(dst[l2] == guard, "encode writes exactly len bytes");
	}
}
#elif defined(T_DECMOD)
static void
test(unsigned bl)
{
	unsigned nw = NW(bl);
	word_t m[nw + 1], x[nw + 1];
	mk(m, bl, 0, 0);
	u128 M = val(m, nw);
	unsigned full = (bl + 7) / 8;
	/* v = 3, 4 (added by the main session after the seeded change C09c escaped): sources MUCH longer than the
	   modulus (2*words+3 and 2*words+5 bytes) - the over-long case has its own padding arithmetic in decode_mod */
	for (int v = 0; v < 5; v++) {
		unsigned len = (v == 0) ? full : (v == 1) ? (full ? full - 1 : 0) : (v == 2) ? full + 2 : (v == 3) ? 2 * nw + 3 : 2 * nw + 5;
		if (len > 15) len = 15;
		if (v >= 3 && bl > 30) continue;   /* the over-long variants only for moduli up to 30 bits (larger ones time out) */
		unsigned char src[len + 1];
		ND_BYTES(src, len);
		u128 V = be_val(src, len);
		for (unsigned i = 0; i <= nw; i++) x[i] = (word_t)ND_WORD();
		uint32_t r = FN(decode_mod)(x, src, len, m);
		CHECK(r == (uint32_t)(V < M), "decode_mod: flag == (value < m)");
		CHECK(x[0] == m[0], "decode_mod: header copied from m");
		CHECK(val(x, nw) == (V < M ? V : 0), "decode_mod: x == value if it fits, else 0");
		CHECK(words_ok(x, nw), "decode_mod: every word in range");
	}
}
#elif defined(T_ADDSUB)
static void
test(unsigned bl)
{
	unsigned nw = NW(bl);
	word_t a[nw + 1], b[nw + 1], a0[nw + 1];
	mk(a, bl, 0, 0);
	mk(b, bl, 0, 0);
	u128 A = val(a, nw), B = val(b, nw);
	u128 MOD = (u128)1 << (W * nw);	/* W*nw <= 124 */
	uint32_t ctl = ND_U32() & 1;
	for (unsigned i = 0; i <= nw; i++) a0[i] = a[i];
	uint32_t c = FN(add)(a, b, ctl);
	CHECK(c == (uint32_t)((A + B) >= MOD), "add: carry out of the top word");
	CHECK(a[0] == a0[0], "add: header unchanged");
	CHECK(val(a, nw) == (ctl ? ((A + B) & (MOD - 1)) : A), "add: a+b mod 2^(W*n) if ctl, else unchanged");
	CHECK(words_ok(a, nw), "add: every word in range");
	for (unsigned i = 0; i <= nw; i++) a[i] = a0[i];
	c = FN(sub)(a, b, ctl);
	CHECK(c == (uint32_t)(A < B), "sub: borrow");
	CHECK(a[0] == a0[0], "sub: header unchanged");
	CHECK(val(a, nw) == (ctl ? ((A - B) & (MOD - 1)) : A), "sub: a-b mod 2^(W*n) if ctl, else unchanged");
	CHECK(words_ok(a, nw), "sub: every word in range");
	/* a and b MAY be the same array */
	for (unsigned i = 0; i <= nw; i++) a[i] = a0[i];
	c = FN(add)(a, a, 1);
	CHECK(c == (uint32_t)((A + A) >= MOD) && val(a, nw) == ((A + A) & (MOD - 1)), "add(a, a)");
	c = FN(sub)(a, a, 1);
	CHECK(c == 0 && val(a, nw) == 0, "sub(a, a)");
}
#elif defined(T_RSHIFT)
static void
test(unsigned bl)
{
	unsigned nw = NW(bl);
	word_t x[nw + 1];
	mk(x, bl, 0, 0);
	u128 V = val(x, nw);
	word_t h = x[0];
	int count = (int)(ND_U32() & 31);
	ASSUME(count < (W == 15 ? 15 : 31));
	FN(rshift)(x, count);
	CHECK(val(x, nw) == (V >> count), "rshift: value >> count");
	CHECK(x[0] == h, "rshift: header unchanged");
	CHECK(words_ok(x, nw), "rshift: every word in range");
}
#elif defined(T_BITLEN)
static void
test(unsigned n)
{
	word_t x[n + 1];
	x[0] = (word_t)ND_WORD();
	for (unsigned i = 1; i <= n; i++) x[i] = (word_t)(ND_WORD() & WMASK);
	u128 V = val(x, n);
	uint32_t r = FN(bit_length)(x + 1, n);
	CHECK(dec_bl(r) == bitlen(V, W * n), "bit_length: encodes the true bit length");
#if W != 32
	CHECK((r & ((1u << HS) - 1)) <= W, "bit_length: low part <= W");
	/* the form actually returned: word index of the top non-zero word, bit length of that word */
	CHECK(V == 0 ? r == 0 : r == (((bitlen(V, W * n) - 1) / W) << HS) + ((bitlen(V, W * n) - 1) % W) + 1,
	      "bit_length: ((k-1)/W << HS) + ((k-1)%W) + 1");
#endif
}
#elif defined(T_MISC)
static void
test(unsigned bl)
{
	unsigned nw = NW(bl);
	word_t x[nw + 1];
	mk(x, bl, 0, 0);
	u128 V = val(x, nw);
	CHECK(FN(iszero)(x) == (uint32_t)(V == 0), "iszero");
	for (unsigned i = 0; i <= nw; i++) x[i] = (word_t)ND_WORD();
	FN(zero)(x, (word_t)enc_bl(bl));
	CHECK(x[0] == (word_t)enc_bl(bl), "zero: header set");
	CHECK(val(x, nw) == 0, "zero: all words cleared");
	CHECK(FN(iszero)(x) == 1, "iszero(zero)");
}
#elif defined(T_NINV)
static void
test(unsigned unused)
{
	(void)unused;
	uint32_t x = ND_WORD();
#ifndef NINV_ANYSLOT
	x &= WMASK;
#endif
#ifdef XBITS
	x &= ((uint32_t)1 << XBITS) - 1;	/* bounded claim: x < 2^XBITS */
#endif
#ifdef LOWBITS
	/* bounded claim: only the low LOWBITS bits of the product are decided */
	CHECK(!(x & 1) || ((((uint64_t)x * NINV((word_t)x)) + 1) & (((uint64_t)1 << LOWBITS) - 1)) == 0, "ninv: x * ninv(x) == -1 mod 2^LOWBITS for odd x");
	return;
#endif
	uint32_t r = NINV((word_t)x);
	CHECK(r <= WMASK, "ninv: result is a word");
	if (x & 1) {
		CHECK((((uint64_t)x * r) & WMASK) == WMASK, "ninv: x * ninv(x) == -1 mod 2^W for odd x");
	} else {
		CHECK(r == 0, "ninv: 0 for even x");
	}
}
#else
#error "no test selected"
#endif

int main(void)
{
#ifdef LIST
	static const unsigned list[] = { LIST };
	for (unsigned i = 0; i < sizeof list / sizeof list[0]; i++) {
		test(list[i]);
	}
#else
	for (unsigned k = LO; k <= HI; k += STEP) {
		test(k);
	}
#endif
	WITNESS_POINT("all sizes done");
	return 0;
}
