/*
 * C12 DES components and cross-implementation equivalence (real des_tab.c,
 * des_ct.c, des_support.c, des_*_cbc*.c).
 * WHAT 1: for every 8-byte key, every round i and every 32-bit half block r:
 *         des_tab Fconf(r, subkey_i of des_tab keysched_unit) ==
 *         des_ct  Fconf(r, expanded subkey_i of des_ct keysched_unit)
 *         i.e. expansion E, key mixing, S-boxes (tables vs bitsliced multiplexer
 *         circuit) and permutation P agree, together with PC-2 in both layouts
 *         and br_des_ct_skey_expand.
 * WHAT 2: br_des_tab_process_block == br_des_ct_process_block (IP, 16/48
 *         rounds, IP^-1) for every KLEN-byte key and every block; both
 *         directions' key schedules (cbcenc_init / cbcdec_init).
 * WHAT 3: br_des_X_cbcdec_run(br_des_X_cbcenc_run(data)) == data, IV handling
 *         included, X = IMPLSEL (1 tab, 2 ct), NBLK blocks, KLEN-byte key.
 */
#include "common.h"
#include "inner.h"

#if WHAT == 1 || WHAT == 2
#define Fconf tab_Fconf
#define process_block_unit tab_process_block_unit
#define keysched_unit tab_keysched_unit
#include "src/symcipher/des_tab.c"
#undef Fconf
#undef process_block_unit
#undef keysched_unit
#define Fconf ct_Fconf
#define process_block_unit ct_process_block_unit
#define keysched_unit ct_keysched_unit
#include "src/symcipher/des_ct.c"
#undef Fconf
#undef process_block_unit
#undef keysched_unit
#endif

#if WHAT == 1
int main(void)
{
	unsigned char key[8];
	uint32_t tsk[32], csk[32], exp[96];
	ND_BYTES(key, 8);
	uint32_t r = ND_U32();
	tab_keysched_unit(tsk, key);
	ct_keysched_unit(csk, key);
	br_des_ct_skey_expand(exp, 1, csk);
	for (int i = 0; i < 16; i++) {
#ifdef R_LO
		if (i < R_LO || i > R_HI) continue;
#endif
		uint32_t d = tab_Fconf(r, tsk[2 * i], tsk[2 * i + 1]) ^ ct_Fconf(r, exp + 6 * i);
		for (int b = 0; b < 32; b++)
			CHECK(((d >> b) & 1) == 0, "des_tab round function == des_ct round function under the respective subkeys (bit by bit)");
	}
	WITNESS_POINT("round functions compared");
	return 0;
}
#elif WHAT == 2
int main(void)
{
	unsigned char key[KLEN], b1[8], b2[8];
	ND_BYTES(key, KLEN);
	for (int i = 0; i < 8; i++) b1[i] = b2[i] = ND_U8();
#if DEC
	br_des_tab_cbcdec_keys kt;
	br_des_ct_cbcdec_keys kc;
	br_des_tab_cbcdec_init(&kt, key, KLEN);
	br_des_ct_cbcdec_init(&kc, key, KLEN);
#else
	br_des_tab_cbcenc_keys kt;
	br_des_ct_cbcenc_keys kc;
	br_des_tab_cbcenc_init(&kt, key, KLEN);
	br_des_ct_cbcenc_init(&kc, key, KLEN);
#endif
	uint32_t exp[288];
	CHECK(kt.num_rounds == kc.num_rounds && kt.num_rounds == (KLEN == 8 ? 1 : 3), "pass count");
	br_des_ct_skey_expand(exp, kc.num_rounds, kc.skey);
	br_des_tab_process_block(kt.num_rounds, kt.skey, b1);
	br_des_ct_process_block(kc.num_rounds, exp, b2);
	for (int i = 0; i < 8; i++) CHECK(b1[i] == b2[i], "des_tab block function == des_ct block function");
	WITNESS_POINT("block functions compared");
	return 0;
}
#elif WHAT == 3
#if IMPLSEL == 1
#define ENC_T br_des_tab_cbcenc_keys
#define DEC_T br_des_tab_cbcdec_keys
#define ENC_INIT br_des_tab_cbcenc_init
#define DEC_INIT br_des_tab_cbcdec_init
#define ENC_RUN br_des_tab_cbcenc_run
#define DEC_RUN br_des_tab_cbcdec_run
#else
#define ENC_T br_des_ct_cbcenc_keys
#define DEC_T br_des_ct_cbcdec_keys
#define ENC_INIT br_des_ct_cbcenc_init
#define DEC_INIT br_des_ct_cbcdec_init
#define ENC_RUN br_des_ct_cbcenc_run
#define DEC_RUN br_des_ct_cbcdec_run
#endif
int main(void)
{
	unsigned char key[KLEN], iv[8], iv1[8], iv2[8], d0[8 * NBLK], d[8 * NBLK];
	ENC_T ke;
	DEC_T kd;
	ND_BYTES(key, KLEN);
	for (int i = 0; i < 8; i++) iv[i] = iv1[i] = iv2[i] = ND_U8();
	for (int i = 0; i < 8 * NBLK; i++) d0[i] = d[i] = ND_U8();
	ENC_INIT(&ke, key, KLEN);
	DEC_INIT(&kd, key, KLEN);
	ENC_RUN(&ke, iv1, d, 8 * NBLK);
	for (int i = 0; i < 8; i++) CHECK(iv1[i] == d[8 * (NBLK - 1) + i], "CBC encryption leaves the last ciphertext block as IV");
	DEC_RUN(&kd, iv2, d, 8 * NBLK);
	for (int i = 0; i < 8 * NBLK; i++) CHECK(d[i] == d0[i], "CBC decrypt(encrypt(x)) == x");
	for (int i = 0; i < 8; i++) CHECK(iv2[i] == iv1[i], "CBC decryption leaves the last ciphertext block as IV");
	(void)iv;
	WITNESS_POINT("round trip");
	return 0;
}
#endif
