/*
 * C10: modular exponentiation replaced at the LINK seam for the gate
 * harnesses (src/int/iNN_modpow*.c is then not linked): gate logic, decoding,
 * range checks, CRT recombination and encoding are what is decided there; the
 * exponentiation itself is C09's subject.  The stand-in leaves x[] as it is
 * (x^1) and reports success.  C10_REAL_MODPOW=1 links the real code instead.
 */
#ifndef C10_MODPOW_STUB_H
#define C10_MODPOW_STUB_H
#ifndef C10_REAL_MODPOW
#define C10_REAL_MODPOW 0
#endif
#ifndef C10_STUB_CRT
#define C10_STUB_CRT 0
#endif
#if !C10_REAL_MODPOW
static int modpow_calls;
#if C10_IMPL == 15
uint32_t br_i15_modpow_opt(uint16_t *x, const unsigned char *e, size_t elen,
	const uint16_t *m, uint16_t m0i, uint16_t *tmp, size_t twlen)
{ (void)x; (void)e; (void)elen; (void)m; (void)m0i; (void)tmp; (void)twlen; modpow_calls++; return 1; }
#elif C10_IMPL == 31
uint32_t br_i31_modpow_opt(uint32_t *x, const unsigned char *e, size_t elen,
	const uint32_t *m, uint32_t m0i, uint32_t *tmp, size_t twlen)
{ (void)x; (void)e; (void)elen; (void)m; (void)m0i; (void)tmp; (void)twlen; modpow_calls++; return 1; }
#elif C10_IMPL == 32
void br_i32_modpow(uint32_t *x, const unsigned char *e, size_t elen,
	const uint32_t *m, uint32_t m0i, uint32_t *t1, uint32_t *t2)
{ (void)x; (void)e; (void)elen; (void)m; (void)m0i; (void)t1; (void)t2; modpow_calls++; }
#else
uint32_t br_i62_modpow_opt(uint32_t *x31, const unsigned char *e, size_t elen,
	const uint32_t *m31, uint32_t m0i31, uint64_t *tmp, size_t twlen)
{ (void)x31; (void)e; (void)elen; (void)m31; (void)m0i31; (void)tmp; (void)twlen; modpow_calls++; return 1; }
#endif
#endif

/*
 * C10_STUB_CRT=1 (i15 private gates only): the CRT-recombination callees
 * br_i15_decode_reduce / reduce / to_monty / montymul are also bound to
 * stand-ins returning the value zero at the link seam.  rsa_i15_priv.c aligns its work area
 * with a pointer-value test that symbolic execution cannot decide, which makes
 * every index into it symbolic; with the full CRT arithmetic the formula has
 * 7e7 variables (measured).  What remains real and decided: factor decoding,
 * p*q, the x < n comparison, parity of p and q, result flag.
 */
#if C10_STUB_CRT
/* contract shape kept: the result carries the announced bit length of m and a
   value below m (zero) */
static void c10_i15_zero_like(uint16_t *x, const uint16_t *m)
{
	size_t n = ((size_t)m[0] + 15) >> 4;
	x[0] = m[0];
	for (size_t u = 0; u < n; u++) x[1 + u] = 0;
}
void br_i15_decode_reduce(uint16_t *x, const void *src, size_t len, const uint16_t *m)
{ (void)src; (void)len; c10_i15_zero_like(x, m); }
void br_i15_reduce(uint16_t *x, const uint16_t *a, const uint16_t *m)
{ (void)a; c10_i15_zero_like(x, m); }
void br_i15_to_monty(uint16_t *x, const uint16_t *m)
{ (void)x; (void)m; }
void br_i15_montymul(uint16_t *d, const uint16_t *x, const uint16_t *y, const uint16_t *m, uint16_t m0i)
{ (void)x; (void)y; (void)m0i; c10_i15_zero_like(d, m); }
#endif

#endif
