/*
 * C07 (T0 part): chunking / resume lemmas for the input-consuming native words
 * (E2 extraction by encoders/t0tool.py).  The T0 programs see their input only
 * through these words; if each of them treats "chunk (b, n)" exactly like
 * "chunk (b, k) followed by chunk (b + k, n - k)", the decoders cannot depend
 * on where the caller cuts the input.
 *
 * -DC07_KEY_pem, -DMODE=0: read8-native of pemdec.c.  For every chunk content
 *    (N bytes, N concrete) and every split point k: the sequence of values
 *    handed to the T0 code is the sequence of the non-CR bytes of the chunk, in
 *    order, in both schedules; a CR is never delivered as data; -1 ("no more
 *    data") is returned exactly when no non-CR byte remains, and then the
 *    chunk is fully consumed.
 * -DC07_KEY_{pkey,skey,x509dec,x509min}:
 *    -DMODE=1: read8-low.  Empty chunk: pushes -1 and changes nothing (no
 *      callback).  Otherwise pushes the next byte, advances by one, and the
 *      hash / append callbacks that are switched on see exactly that byte.
 *    -DMODE=2: read-blob-inner ( addr len -- addr' len' ).  One call on (b, n)
 *      versus a call on (b, k) followed by a call on (b + k, n - k) with the
 *      operands the first call left: same final operands (addr + m, len - m,
 *      m = min(n, len)), same destination bytes (= the first m chunk bytes),
 *      same cursor, same byte stream seen by the callbacks.
 */
#define T0N_PRE_INCLUDE "C05_t0f.h"
#define T0N_NO_RUN 1      /* the interpreter is not part of these claims (and a candidate target of function pointers) */
#if defined(C07_KEY_pem)
#include "t0n_pem.c"
#include "t0n_pem_ops.h"
#elif defined(C07_KEY_pkey)
#include "t0n_pkey.c"
#include "t0n_pkey_ops.h"
#elif defined(C07_KEY_skey)
#include "t0n_skey.c"
#include "t0n_skey_ops.h"
#elif defined(C07_KEY_x509dec)
#include "t0n_x509dec.c"
#include "t0n_x509dec_ops.h"
#elif defined(C07_KEY_x509min)
#include "t0n_x509min.c"
#include "t0n_x509min_ops.h"
#endif
void T0N_RUN_FN(void *t0ctx) { (void)t0ctx; }
#ifndef MODE
#define MODE 0
#endif
#ifndef N
#define N 5
#endif

static unsigned char buf[N + 1];

/* ---- callback log: which run (0/1), which callback (0/1), bytes in order */
static int run;
static unsigned char logb[2][2][N + 2];
static unsigned logn[2][2];
static void
log_bytes(int which, const void *data, size_t len)
{
	size_t i;
	for (i = 0; i < N + 1; i ++) if (i < len) {
		if (logn[run][which] < N + 1) logb[run][which][logn[run][which]] = ((const unsigned char *)data)[i];
		logn[run][which] ++;
	}
}
#if defined(C07_KEY_x509min)
void br_multihash_update(br_multihash_context *ctx, const void *data, size_t len) { (void)ctx; log_bytes(0, data, len); }
static void h_update(const br_hash_class **hc, const void *data, size_t len) { (void)hc; log_bytes(1, data, len); }
static br_hash_class hcls;
#define CB_SETUP(c, f0, f1) do { hcls.update = h_update; (c)->dn_hash_impl = &hcls; (c)->do_mhash = (f0); (c)->do_dn_hash = (f1); } while (0)
#elif defined(C07_KEY_x509dec)
static void app_dn(void *x, const void *b, size_t len) { (void)x; log_bytes(0, b, len); }
static void app_in(void *x, const void *b, size_t len) { (void)x; log_bytes(1, b, len); }
#define CB_SETUP(c, f0, f1) do { (c)->append_dn = app_dn; (c)->append_in = app_in; (c)->append_dn_ctx = 0; (c)->append_in_ctx = 0; (c)->copy_dn = (f0); (c)->copy_in = (f1); } while (0)
#else
#define CB_SETUP(c, f0, f1) do { (void)(f0); (void)(f1); } while (0)
#endif

static int32_t
call1(T0N_CTXT *c, unsigned op)
{
	uint32_t d = t0n_dpi;
	t0n_co = 0;
	C05_DISPATCH(c, op);
	CHECK(t0n_dpi == d + 1 && t0n_co == 0, "the word pushes exactly one value and does not yield");
	t0n_dpi --;
	return (int32_t)T0F_DS(c)[t0n_dpi];
}

int
main(void)
{
	T0N_CTXT ca, cb;
	size_t k = ND_SIZE(), i;
#ifdef NATIVE_REPLAY
	NATIVE_FILL(&ca, sizeof ca); NATIVE_FILL(&cb, sizeof cb);
#endif
	ASSUME(k <= N);
	for (i = 0; i < N; i ++) buf[i] = ND_U8();
	T0F_DEPTH_AT(5);

#if MODE == 0
	{
		/* reference: the non-CR bytes, in order */
		unsigned char ref[N + 1];
		int32_t sa[N + 2], sb[N + 2];
		size_t nref = 0, na = 0, nb = 0;
		int j, done;
		for (i = 0; i < N; i ++) if (buf[i] != '\r') ref[nref ++] = buf[i];
		/* schedule A: one chunk */
		ca.hbuf = buf; ca.hlen = N;
		done = 0;
		for (j = 0; j < N + 1; j ++) if (!done) {
			int32_t v = call1(&ca, C05_OP_read8_native);
			if (v == -1) { done = 1; } else { sa[na ++] = v; }
		}
		CHECK(done, "after at most N values the word reports that the chunk is exhausted");
		CHECK(ca.hlen == 0 && ca.hbuf == buf + N, "when -1 is returned the chunk is fully consumed");
		/* schedule B: two chunks */
		cb.hbuf = buf; cb.hlen = k;
		done = 0;
		for (j = 0; j < N + 1; j ++) if (!done) {
			int32_t v = call1(&cb, C05_OP_read8_native);
			if (v == -1) { done = 1; } else { sb[nb ++] = v; }
		}
		CHECK(done && cb.hlen == 0 && cb.hbuf == buf + k, "first part fully consumed before -1");
		cb.hbuf = buf + k; cb.hlen = N - k;
		done = 0;
		for (j = 0; j < N + 1; j ++) if (!done) {
			int32_t v = call1(&cb, C05_OP_read8_native);
			if (v == -1) { done = 1; } else { if (nb < N + 1) sb[nb] = v; nb ++; }
		}
		CHECK(done && cb.hlen == 0 && cb.hbuf == buf + N, "second part fully consumed before -1");
		CHECK(na == nref && nb == nref, "both schedules deliver exactly as many values as there are non-CR bytes");
		for (i = 0; i < N; i ++) if (i < nref) {
			CHECK(sa[i] == (int32_t)ref[i], "single chunk: values = non-CR bytes in order");
			CHECK(i >= nb || sb[i] == (int32_t)ref[i], "split chunk: values = non-CR bytes in order");
			CHECK(sa[i] != '\r' && (i >= nb || sb[i] != '\r'), "a CR is never delivered as data");
		}
		if (nref < N && nref > 0) { WITNESS_POINT("chunk with CR bytes and data"); }
		if (k > 0 && k < N && buf[k - 1] == '\r') { WITNESS_POINT("CR at the end of the first part"); }
		if (nref == 0) { WITNESS_POINT("only CR bytes"); }
	}
#elif MODE == 1
	{
		int f0 = ND_U8() & 1, f1 = ND_U8() & 1;
		int32_t v;
		size_t n = ND_SIZE();
		ASSUME(n <= N);
		CB_SETUP(&ca, f0, f1);
		run = 0;
		ca.hbuf = buf; ca.hlen = n;
		v = call1(&ca, C05_OP_read8_low);
		if (n == 0) {
			CHECK(v == -1, "empty chunk: -1");
			CHECK(ca.hbuf == buf && ca.hlen == 0, "empty chunk: cursor unchanged");
			CHECK(logn[0][0] == 0 && logn[0][1] == 0, "empty chunk: no callback");
			WITNESS_POINT("empty chunk");
		} else {
			CHECK(v == (int32_t)buf[0], "next byte of the chunk");
			CHECK(ca.hbuf == buf + 1 && ca.hlen == n - 1, "cursor advanced by one");
#if defined(C07_KEY_x509min) || defined(C07_KEY_x509dec)
			CHECK(logn[0][0] == (unsigned)f0 && logn[0][1] == (unsigned)f1, "each enabled callback sees one byte, disabled ones none");
			CHECK((!f0 || logb[0][0][0] == buf[0]) && (!f1 || logb[0][1][0] == buf[0]), "the callbacks see the byte that was read");
#endif
			WITNESS_POINT("byte read");
		}
	}
#else
	{
		int f0 = ND_U8() & 1, f1 = ND_U8() & 1;
		uint32_t len = ND_U32(), a0 = offsetof(T0N_CTXT, pad) + 1, m;
		ASSUME(len <= N + 2);
		m = len < N ? len : N;
		CB_SETUP(&ca, f0, f1); CB_SETUP(&cb, f0, f1);
		/* schedule A */
		run = 0;
		ca.hbuf = buf; ca.hlen = N;
		T0F_PUSH(&ca, a0); T0F_PUSH(&ca, len);
		t0n_co = 0; C05_DISPATCH(&ca, C05_OP_read_blob_inner);
		CHECK(t0n_dpi == 7 && t0n_co == 0, "read-blob-inner replaces (addr len) by (addr' len')");
		CHECK(T0F_TOP(&ca, 1) == a0 + m && T0F_TOP(&ca, 0) == len - m, "single chunk: addr' = addr + min(n, len), len' = len - min(n, len)");
		CHECK(ca.hbuf == buf + m && ca.hlen == N - m, "single chunk: cursor advanced by min(n, len)");
		for (i = 0; i < N; i ++) if (i < m) CHECK(ca.pad[1 + i] == buf[i], "single chunk: destination = first min(n, len) chunk bytes");
		t0n_dpi = 5;
		/* schedule B */
		run = 1;
		cb.hbuf = buf; cb.hlen = k;
		T0F_PUSH(&cb, a0); T0F_PUSH(&cb, len);
		t0n_co = 0; C05_DISPATCH(&cb, C05_OP_read_blob_inner);
		CHECK(t0n_dpi == 7, "first part: two results");
		if (T0F_TOP(&cb, 0) != 0) {       /* read-blob: `co` (next chunk) and another call only while len' != 0 */
			CHECK(cb.hlen == 0 && cb.hbuf == buf + k, "more data is requested only when the chunk is exhausted");
			cb.hbuf = buf + k; cb.hlen = N - k;
			t0n_co = 0; C05_DISPATCH(&cb, C05_OP_read_blob_inner);
			CHECK(cb.hbuf == buf + m && cb.hlen == N - m, "split chunk: same final cursor");
			WITNESS_POINT("element continues in the second part");
		} else {
			CHECK(cb.hbuf == buf + m && cb.hlen == k - m, "element completed by the first part: the rest of that part is left for the following words");
			WITNESS_POINT("element completed by the first part");
		}
		CHECK(t0n_dpi == 7 && T0F_TOP(&cb, 1) == a0 + m && T0F_TOP(&cb, 0) == len - m, "split chunk: same final operands");
		for (i = 0; i < N; i ++) if (i < m) CHECK(cb.pad[1 + i] == buf[i], "split chunk: same destination bytes");
#if defined(C07_KEY_x509min) || defined(C07_KEY_x509dec)
		CHECK(logn[0][0] == (f0 ? m : 0) && logn[1][0] == logn[0][0] && logn[0][1] == (f1 ? m : 0) && logn[1][1] == logn[0][1],
			"each enabled callback sees min(n, len) bytes in both schedules, disabled ones none");
		for (i = 0; i < N; i ++) if (i < m) {
			CHECK(!f0 || (logb[0][0][i] == buf[i] && logb[1][0][i] == buf[i]), "first callback: same byte stream = the consumed chunk bytes");
			CHECK(!f1 || (logb[0][1][i] == buf[i] && logb[1][1][i] == buf[i]), "second callback: same byte stream = the consumed chunk bytes");
		}
#endif
		if (len > N) { WITNESS_POINT("element longer than the chunk"); }
	}
#endif
	return 0;
}
