/*
 * C13: the compression functions as an ORACLE with call logs.
 *
 * Probe results (2026-10-02, this machine, 120 s cap each):
 *  - "two calls of br_md5_round on the same symbolic block and chaining value
 *    give the same result": no verdict on minisat / cadical / kissat / z3
 *    (the duplicated 64-step ARX circuits are not recognised as identical),
 *    so laws of the form "both sides make the same compression calls" are
 *    NOT cheap with the real round functions;
 *  - __CPROVER_uninterpreted_* round functions work (0.2 s) but CBMC's
 *    Ackermann expansion is quadratic in the number of calls (80 calls:
 *    850 k variables), which rules out "every split point" in one query.
 *
 * What C13 claims for the hash files is the buffering / padding / length /
 * state logic AROUND the compression function, and that logic is the same for
 * every function  round : block x chaining -> chaining.  The harnesses
 * therefore bind the link-time symbols br_md5_round / br_sha1_round /
 * br_sha2small_round (declared in inner.h; goto-cc keeps the FIRST definition
 * it sees and the harness is the first file on its command line;
 * c13_seam_check() proves in every query that the binding is in effect) and
 * the calls of the static sha2big_round to the following oracle:
 *
 *   side A (c13_A(log)):  the k-th call stores (block, chaining input) in
 *       log[k] and returns log[k].out, an unconstrained symbolic value drawn
 *       up front;
 *   side A linked (c13_A_linked(log, parent)): as A, but a call whose inputs
 *       equal those of the k-th call recorded in `parent` returns that
 *       call's value;
 *   side B (c13_B(log, start)):  the j-th call returns log[start+j].out IF its
 *       (block, chaining input) equal the logged ones, otherwise another
 *       unconstrained value;
 *   c13_X(): every call returns an unconstrained value.
 *
 * Every real compression function is one of the behaviours of this oracle
 * (the only constraint used, "equal inputs give equal outputs" on the paired
 * calls, holds for any function), so a digest equality proved with it holds
 * for EVERY compression function, in particular the real one.  The converse
 * (a reported difference) is replayed natively with the real functions
 * before it is reported.  The price is that references must make their
 * compression calls in the same order as the code under test.
 *
 * sha2big_round is `static` in sha2big.c; the harness #includes that file
 * with a function-like macro that renames the DEFINITION
 * (`sha2big_round(const unsigned char *buf, ...`) to c13_sha2big_round_real
 * and the three CALLS (`sha2big_round(cc->buf, ...` / `sha2big_round(buf, ...`)
 * to c13_sha2big_round; any other spelling in a future tree is a compile
 * error (reported INCONCLUSIVE), never a silent change of meaning.
 *
 * With -DNATIVE_REPLAY or -DC13_REAL_ROUNDS nothing is rebound (replays and
 * the known-answer queries run the real compression functions); the oracle
 * values are still drawn so that the replay stream stays aligned.
 *
 * Select kinds with -DC13_UF_MD5 / C13_UF_SHA1 / C13_UF_SHA2S / C13_UF_SHA2B
 * before including this header (C13_UF_SHA2B: include this header BEFORE
 * "src/hash/sha2big.c" and #undef sha2big_round after it).
 */
#ifndef C13_ORACLE_H
#define C13_ORACLE_H
#include "common.h"
#include "inner.h"

#if defined(NATIVE_REPLAY) || defined(C13_REAL_ROUNDS)
#define C13_UF_ACTIVE 0
#else
#define C13_UF_ACTIVE 1
#endif

#ifndef C13_NLOG
#define C13_NLOG 2
#endif
#ifndef C13_MAXCALLS
#define C13_MAXCALLS 6
#endif
#ifndef C13_NFRESH
#define C13_NFRESH 8
#endif

typedef struct { unsigned char blk[64]; uint32_t in[8]; uint32_t out[8]; } c13_ent32;
typedef struct { unsigned char blk[128]; uint64_t in[8]; uint64_t out[8]; } c13_ent64;

static int c13_mode;            /* 0 = X, 1 = A, 2 = B */
static unsigned c13_log;        /* selected log */
static int c13_parent = -1;     /* side A only: log whose k-th entry is consulted first */

#define C13_KIND32(name) \
	static c13_ent32 c13_ ## name ## _log[C13_NLOG][C13_MAXCALLS]; \
	static uint32_t c13_ ## name ## _ora[C13_NLOG][C13_MAXCALLS][8]; \
	static unsigned c13_ ## name ## _n[C13_NLOG]; \
	static unsigned c13_ ## name ## _cur; \
	static uint32_t c13_ ## name ## _fresh[C13_NFRESH][8]; \
	static unsigned c13_ ## name ## _nfresh; \
	static void c13_ ## name ## _draw(int nw) { \
		for (int l = 0; l < C13_NLOG; l++) for (int k = 0; k < C13_MAXCALLS; k++) \
			for (int i = 0; i < nw; i++) c13_ ## name ## _ora[l][k][i] = ND_U32(); \
		for (int k = 0; k < C13_NFRESH; k++) for (int i = 0; i < nw; i++) c13_ ## name ## _fresh[k][i] = ND_U32(); \
	} \
	static void c13_ ## name ## _call(const unsigned char *buf, uint32_t *val, int nw) { \
		if (c13_mode == 1) { \
			unsigned k = c13_ ## name ## _n[c13_log]; \
			__CPROVER_assert(k < C13_MAXCALLS, "oracle: log capacity (raise C13_MAXCALLS)"); \
			int same = 0; \
			if (c13_parent >= 0 && k < c13_ ## name ## _n[c13_parent]) { \
				same = 1; \
				for (int i = 0; i < 64; i++) same &= (c13_ ## name ## _log[c13_parent][k].blk[i] == buf[i]); \
				for (int i = 0; i < nw; i++) same &= (c13_ ## name ## _log[c13_parent][k].in[i] == val[i]); \
			} \
			for (int i = 0; i < nw; i++) \
				c13_ ## name ## _log[c13_log][k].out[i] = same ? c13_ ## name ## _log[c13_parent < 0 ? 0 : c13_parent][k].out[i] : c13_ ## name ## _ora[c13_log][k][i]; \
			for (int i = 0; i < 64; i++) c13_ ## name ## _log[c13_log][k].blk[i] = buf[i]; \
			for (int i = 0; i < nw; i++) { c13_ ## name ## _log[c13_log][k].in[i] = val[i]; val[i] = c13_ ## name ## _log[c13_log][k].out[i]; } \
			c13_ ## name ## _n[c13_log] = k + 1; \
			return; \
		} \
		unsigned f = c13_ ## name ## _nfresh; \
		__CPROVER_assert(f < C13_NFRESH, "oracle: fresh pool capacity (raise C13_NFRESH)"); \
		c13_ ## name ## _nfresh = f + 1; \
		if (c13_mode == 2 && c13_ ## name ## _cur < c13_ ## name ## _n[c13_log]) { \
			unsigned j = c13_ ## name ## _cur; \
			c13_ ## name ## _cur = j + 1; \
			int same = 1; \
			for (int i = 0; i < 64; i++) same &= (c13_ ## name ## _log[c13_log][j].blk[i] == buf[i]); \
			for (int i = 0; i < nw; i++) same &= (c13_ ## name ## _log[c13_log][j].in[i] == val[i]); \
			for (int i = 0; i < nw; i++) val[i] = same ? c13_ ## name ## _log[c13_log][j].out[i] : c13_ ## name ## _fresh[f][i]; \
			return; \
		} \
		for (int i = 0; i < nw; i++) val[i] = c13_ ## name ## _fresh[f][i]; \
	}

#ifdef C13_UF_MD5
C13_KIND32(md5)
#if C13_UF_ACTIVE
void br_md5_round(const unsigned char *buf, uint32_t *val) { c13_md5_call(buf, val, 4); }
#endif
#endif
#ifdef C13_UF_SHA1
C13_KIND32(sha1)
#if C13_UF_ACTIVE
void br_sha1_round(const unsigned char *buf, uint32_t *val) { c13_sha1_call(buf, val, 5); }
#endif
#endif
#ifdef C13_UF_SHA2S
C13_KIND32(sha2s)
#if C13_UF_ACTIVE
void br_sha2small_round(const unsigned char *buf, uint32_t *val) { c13_sha2s_call(buf, val, 8); }
#endif
#endif

#ifdef C13_UF_SHA2B
static c13_ent64 c13_sha2b_log[C13_NLOG][C13_MAXCALLS];
static uint64_t c13_sha2b_ora[C13_NLOG][C13_MAXCALLS][8];
static unsigned c13_sha2b_n[C13_NLOG];
static unsigned c13_sha2b_cur;
static uint64_t c13_sha2b_fresh[C13_NFRESH][8];
static unsigned c13_sha2b_nfresh;
static void c13_sha2b_draw(int nw)
{
	for (int l = 0; l < C13_NLOG; l++) for (int k = 0; k < C13_MAXCALLS; k++)
		for (int i = 0; i < nw; i++) c13_sha2b_ora[l][k][i] = ND_U64();
	for (int k = 0; k < C13_NFRESH; k++) for (int i = 0; i < nw; i++) c13_sha2b_fresh[k][i] = ND_U64();
}
#if C13_UF_ACTIVE
static void
c13_sha2big_round(const unsigned char *buf, uint64_t *val)
{
	if (c13_mode == 1) {
		unsigned k = c13_sha2b_n[c13_log];
		__CPROVER_assert(k < C13_MAXCALLS, "oracle: log capacity (raise C13_MAXCALLS)");
		int same = 0;
		if (c13_parent >= 0 && k < c13_sha2b_n[c13_parent]) {
			same = 1;
			for (int i = 0; i < 128; i++) same &= (c13_sha2b_log[c13_parent][k].blk[i] == buf[i]);
			for (int i = 0; i < 8; i++) same &= (c13_sha2b_log[c13_parent][k].in[i] == val[i]);
		}
		for (int i = 0; i < 8; i++)
			c13_sha2b_log[c13_log][k].out[i] = same ? c13_sha2b_log[c13_parent < 0 ? 0 : c13_parent][k].out[i] : c13_sha2b_ora[c13_log][k][i];
		for (int i = 0; i < 128; i++) c13_sha2b_log[c13_log][k].blk[i] = buf[i];
		for (int i = 0; i < 8; i++) { c13_sha2b_log[c13_log][k].in[i] = val[i]; val[i] = c13_sha2b_log[c13_log][k].out[i]; }
		c13_sha2b_n[c13_log] = k + 1;
		return;
	}
	unsigned f = c13_sha2b_nfresh;
	__CPROVER_assert(f < C13_NFRESH, "oracle: fresh pool capacity (raise C13_NFRESH)");
	c13_sha2b_nfresh = f + 1;
	if (c13_mode == 2 && c13_sha2b_cur < c13_sha2b_n[c13_log]) {
		unsigned j = c13_sha2b_cur;
		c13_sha2b_cur = j + 1;
		int same = 1;
		for (int i = 0; i < 128; i++) same &= (c13_sha2b_log[c13_log][j].blk[i] == buf[i]);
		for (int i = 0; i < 8; i++) same &= (c13_sha2b_log[c13_log][j].in[i] == val[i]);
		for (int i = 0; i < 8; i++) val[i] = same ? c13_sha2b_log[c13_log][j].out[i] : c13_sha2b_fresh[f][i];
		return;
	}
	for (int i = 0; i < 8; i++) val[i] = c13_sha2b_fresh[f][i];
}
/* definition -> c13_sha2big_round_real, calls -> c13_sha2big_round */
#define sha2big_round(b, v)  C13_SEL_ ## b, v)
#define C13_SEL_const        c13_sha2big_round_real(const
#define C13_SEL_cc           c13_sha2big_round(cc
#define C13_SEL_buf          c13_sha2big_round(buf
#define C13_SHA2BIG_ROUND    c13_sha2big_round
#endif
#endif

#ifndef C13_SHA2BIG_ROUND
#define C13_SHA2BIG_ROUND    sha2big_round
#endif

/* draw every oracle value (same draws in every build mode) */
static void
c13_oracle_init(void)
{
#ifdef C13_UF_MD5
	c13_md5_draw(4);
#endif
#ifdef C13_UF_SHA1
	c13_sha1_draw(5);
#endif
#ifdef C13_UF_SHA2S
	c13_sha2s_draw(8);
#endif
#ifdef C13_UF_SHA2B
	c13_sha2b_draw(8);
#endif
	c13_mode = 0;
}

/* start recording into `log` (emptied) */
static void
c13_A(unsigned log)
{
	c13_mode = 1;
	c13_log = log;
	c13_parent = -1;
#ifdef C13_UF_MD5
	c13_md5_n[log] = 0;
#endif
#ifdef C13_UF_SHA1
	c13_sha1_n[log] = 0;
#endif
#ifdef C13_UF_SHA2S
	c13_sha2s_n[log] = 0;
#endif
#ifdef C13_UF_SHA2B
	c13_sha2b_n[log] = 0;
#endif
}

/*
 * Start recording into `log` (emptied); the k-th call returns what the k-th
 * call recorded in `parent` returned if it has the same inputs (still only
 * "equal inputs give equal outputs").
 */
static void c13_A(unsigned log);
static void
c13_A_linked(unsigned log, unsigned parent)
{
	c13_A(log);
	c13_parent = (int)parent;
}

/* continue recording into `log` */
static void
c13_A_more(unsigned log)
{
	c13_mode = 1;
	c13_log = log;
}

/* replay against `log`: the next call is paired with entry `start` */
static void
c13_B(unsigned log, unsigned start)
{
	c13_mode = 2;
	c13_log = log;
#ifdef C13_UF_MD5
	c13_md5_cur = start;
#endif
#ifdef C13_UF_SHA1
	c13_sha1_cur = start;
#endif
#ifdef C13_UF_SHA2S
	c13_sha2s_cur = start;
#endif
#ifdef C13_UF_SHA2B
	c13_sha2b_cur = start;
#endif
}

static void
c13_X(void)
{
	c13_mode = 0;
}

/*
 * Hand the unconstrained "other" values out again from the first one.  Only
 * to be called between independent comparisons (e.g. at the top of a loop
 * over split points): every CHECK then still sees distinct unconstrained
 * values for distinct unmatched calls of ITS run, which is all the argument
 * in the header needs.
 */
static void
c13_recycle(void)
{
#ifdef C13_UF_MD5
	c13_md5_nfresh = 0;
#endif
#ifdef C13_UF_SHA1
	c13_sha1_nfresh = 0;
#endif
#ifdef C13_UF_SHA2S
	c13_sha2s_nfresh = 0;
#endif
#ifdef C13_UF_SHA2B
	c13_sha2b_nfresh = 0;
#endif
}

#endif
