/*
 * C05_pre.h -- included by the E2-generated file (t0n_<key>.c) right after
 * "inner.h" and before the preamble of the generated T0 file.  Selects the VM
 * macro mode of encoders/t0n_vm.h and routes the libc string functions used by
 * native words to checked / abstracted versions.
 *
 *   -DC05_EFFECT   stack-effect measurement (E4): ghost tracking of the lowest /
 *                  highest stack slot touched; string functions are abstracted
 *                  (their results are unconstrained), since a stack effect that
 *                  holds for every memory content holds for the real ones
 *   (default)      layer 2: the stack depth on entry is ASSUMED to leave room for the
 *                  native's proved need/peak (that is what E4 establishes at
 *                  every call site) and every stack access is then CHECKED to be
 *                  in range; every context-offset operand and every string
 *                  function region checked against the context FIELD it starts in
 */
#ifndef C05_PRE_H
#define C05_PRE_H
#include "common.h"

#define T0N_ASSUME(c) ASSUME(c)
#define T0N_CHECK(c, m) CHECK(c, m)

static unsigned char *t0n_addr_chk(void *base, size_t off, size_t width);
static void t0n_region_chk(const void *p, size_t n, int wr);
#define T0_ADDR(base, off, width)  t0n_addr_chk((base), (size_t)(off), (size_t)(width))

#ifdef C05_EFFECT
#define T0N_TRACK 1
static void *t0n_x_memcpy(void *d, const void *s, size_t n) { (void)s; (void)n; return d; }
static void *t0n_x_memset(void *d, int c, size_t n) { (void)c; (void)n; return d; }
static int t0n_x_memcmp(const void *a, const void *b, size_t n) { (void)a; (void)b; (void)n; return ND_INT(); }
static size_t t0n_x_strlen(const char *s) { size_t n = 0; while (s[n] != 0) { n ++; } return n; }   /* strings come from the environment (bounded) */
#else
#define T0N_GUARD 1
/* checked versions: region inside the object (CBMC r_ok/w_ok) and, when the
   region starts inside the T0 context, inside the field it starts in */
static void *t0n_x_memcpy(void *d, const void *s, size_t n)
{
	t0n_region_chk(d, n, 1);
	t0n_region_chk(s, n, 0);
#ifdef NATIVE_REPLAY
	{ size_t i; for (i = 0; i < n; i ++) ((unsigned char *)d)[i] = ((const unsigned char *)s)[i]; }
#else
	/* destination left at its unconstrained pre-state value: a superset of "source bytes"
	   (a havoc of a symbolic slice of the context costs > 20 GB of SAT memory) */
#endif
	return d;
}
static void *t0n_x_memset(void *d, int c, size_t n)
{
	t0n_region_chk(d, n, 1);
#ifdef NATIVE_REPLAY
	{ size_t i; for (i = 0; i < n; i ++) ((unsigned char *)d)[i] = (unsigned char)c; }
#else
	(void)c;
#endif
	return d;
}
static int t0n_x_memcmp(const void *a, const void *b, size_t n)
{
	t0n_region_chk(a, n, 0);
	t0n_region_chk(b, n, 0);
#ifdef NATIVE_REPLAY
	{ size_t i; for (i = 0; i < n; i ++) { int x = ((const unsigned char *)a)[i], y = ((const unsigned char *)b)[i]; if (x != y) return x - y; } return 0; }
#else
	return ND_INT();
#endif
}
#ifndef C05_STRLEN_MAX
#define C05_STRLEN_MAX 12
#endif
static size_t t0n_x_strlen(const char *s)
{
	size_t n = 0;
	while (s[n] != 0) { n ++; }
	t0n_region_chk(s, n + 1, 0);
	return n;
}
#endif

#define memcpy  t0n_x_memcpy
#define memmove t0n_x_memcpy
#define memset  t0n_x_memset
#define memcmp  t0n_x_memcmp
#define strlen  t0n_x_strlen

#endif
