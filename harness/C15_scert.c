/*
 * C15.b: server policy handlers sr_choose (POLICY_EC=0, real
 * src/ssl/ssl_scert_single_rsa.c) and se_choose (POLICY_EC=1, real
 * src/ssl/ssl_scert_single_ec.c), configured through the public setter and
 * called through the policy vtable, against the reference negotiation
 * function of C15_ref.h.  br_ssl_choose_hash is the real one (linked).
 *
 * Symbolic: 4 client_suites entries (wire id, translated flags),
 * client_suites_num in 0..4, client hashes (32 bits), curves, protocol
 * version (16 bits), allowed_usages, cert_issuer_key_type, chain_len.
 */
#include "common.h"
#include "C15_ref.h"
#if POLICY_EC
#include "src/ssl/ssl_scert_single_ec.c"
#else
#include "src/ssl/ssl_scert_single_rsa.c"
#endif

#define NS 4

static br_ssl_server_context sc;
static const br_x509_certificate the_chain[2];

int main(void)
{
	uint16_t st[NS][2];
	for (int i = 0; i < NS; i++) {
		st[i][0] = ND_U16();
		st[i][1] = ND_U16();
	}
	unsigned n = ND_U8();
	ASSUME(n <= NS);
	uint32_t hashes = ND_U32();
	uint32_t curves = ND_U32();
	unsigned version = ND_U16();
	unsigned usages = ND_U32();
	unsigned issuer = ND_U32();
	size_t chain_len = ND_SIZE();

	for (int i = 0; i < NS; i++) {
		sc.client_suites[i][0] = st[i][0];
		sc.client_suites[i][1] = st[i][1];
	}
	sc.client_suites_num = (unsigned char)n;
	sc.hashes = hashes;
	sc.curves = curves;
	sc.eng.session.version = (uint16_t)version;
#if POLICY_EC
	br_ssl_server_set_single_ec(&sc, the_chain, chain_len, 0, usages, issuer, 0, 0);
	ref_choice ref = ref_choose_ec(st, n, usages, issuer, version, hashes);
#else
	(void)issuer;
	br_ssl_server_set_single_rsa(&sc, the_chain, chain_len, 0, usages, 0, 0);
	ref_choice ref = ref_choose_rsa(st, n, usages, version, hashes);
#endif
	br_ssl_server_choices ch;
	ch.cipher_suite = ND_U16();
	ch.algo_id = ND_U32();
	ch.chain = 0;
	ch.chain_len = 0;

	int r = (*sc.policy_vtable)->choose(sc.policy_vtable, &sc, &ch);

	CHECK(r == 0 || r == 1, "choose returns 0 or 1");
	CHECK((r != 0) == (ref.ok != 0), "choose succeeds iff the reference finds a usable suite");
	if (r != 0 && ref.ok) {
		CHECK(ch.cipher_suite == ref.suite, "chosen suite is the FIRST usable entry of client_suites");
		CHECK(ch.chain == the_chain && ch.chain_len == chain_len, "chain / chain_len are the configured ones");
		if (ref.signs) {
			CHECK(ch.algo_id == ref.algo_id, "algo_id is 0xFF00 + documented signature hash");
			if (version < 0x0303) { WITNESS_POINT("ECDHE suite chosen below TLS 1.2"); }
			else { WITNESS_POINT("ECDHE suite chosen at TLS 1.2"); }
		} else {
			WITNESS_POINT("key-exchange (non-ECDHE) suite chosen");
		}
		if (n == NS && ch.cipher_suite == st[NS - 1][0] && st[0][0] != st[NS - 1][0]) {
			WITNESS_POINT("last of 4 entries chosen because the first three are unusable");
		}
	}
	if (r == 0) {
		if (n == NS) { WITNESS_POINT("no usable suite among 4"); }
		if (n == 0) { WITNESS_POINT("empty suite list"); }
	}
	return 0;
}
