/*
 * C04.a (C helpers of src/x509/x509_minimal.c, reached by #include):
 *  PART 1 eqnocase: equal exactly when the names are equal up to ASCII letter
 *         case - every byte value, including NUL and bytes >= 0x80 (which are
 *         never folded)
 *  PART 2 eqbigint: unsigned big-endian value equality, leading zeros ignored
 *  PART 3 check_single_direct_trust: a leaf is directly trusted exactly when
 *         the anchor is not a CA, has the leaf's hashed name, key type and key
 *  PART 4 check_single_trust_anchor_CA + verify_signature: a CA anchor
 *         validates the certificate exactly when it is a CA, has the issuer's
 *         hashed name, a key of the signer type, and the verifier behind the
 *         engine seam succeeds on the TBS hash
 */
#include "common.h"
#include "inner.h"
#include "src/x509/x509_minimal.c"

#ifndef PART
#define PART 1
#endif
#ifndef NL
#define NL 3
#endif
#define DHL 8   /* DN hash output length of the stub hash class */

static const br_hash_class dnh = { 0, (uint32_t)DHL << BR_HASHDESC_OUT_OFF, 0, 0, 0, 0, 0 };

static int fold(int c) { return (c >= 'A' && c <= 'Z') ? c + 32 : c; }

static int rsa_calls, ec_calls, v_res; static const void *v_key; static unsigned char v_rec[64];
static uint32_t stub_rsa(const unsigned char *x, size_t xlen, const unsigned char *oid, size_t hl, const br_rsa_public_key *pk, unsigned char *out)
{ (void)x; (void)xlen; (void)oid; rsa_calls++; v_key = pk; for (size_t i = 0; i < hl && i < 64; i++) out[i] = v_rec[i]; return (uint32_t)v_res; }
static uint32_t stub_ec(const br_ec_impl *impl, const void *hash, size_t hl, const br_ec_public_key *pk, const void *sig, size_t sl)
{ (void)impl; (void)hash; (void)hl; (void)sig; (void)sl; ec_calls++; v_key = pk; return (uint32_t)v_res; }

int main(void)
{
#if PART == 1
	unsigned char a[NL], b[NL];
	ND_BYTES(a, NL); ND_BYTES(b, NL);
	int r = eqnocase(a, b, NL);
	int ref = 1;
	for (int i = 0; i < NL; i++) if (fold(a[i]) != fold(b[i])) ref = 0;
	CHECK(r == ref, "eqnocase: equal exactly up to ASCII letter case (no folding of other bytes)");
	if (r) { WITNESS_POINT("equal"); } else { WITNESS_POINT("different"); }
#elif PART == 2
	unsigned char a[4], b[4];
	ND_BYTES(a, 4); ND_BYTES(b, 4);
	size_t la = ND_SIZE(), lb = ND_SIZE();
	ASSUME(la <= 4 && lb <= 4);
	uint32_t va = 0, vb = 0;
	for (size_t i = 0; i < 4; i++) { if (i < la) va = (va << 8) | a[i]; if (i < lb) vb = (vb << 8) | b[i]; }
	int r = eqbigint(a, la, b, lb);
	CHECK(r == (va == vb), "eqbigint: unsigned value equality, leading zeros ignored");
	if (r) { WITNESS_POINT("equal"); } else { WITNESS_POINT("different"); }
#else
	br_x509_minimal_context xc;
	br_x509_trust_anchor ta;
	unsigned char hdn[64];
	unsigned char n1[3], e1[2], n2[3], e2[2], q1[5], q2[5];
#ifdef NATIVE_REPLAY
	NATIVE_FILL(&xc, sizeof xc); NATIVE_FILL(&ta, sizeof ta);
#endif
	xc.dn_hash_impl = &dnh;
	ND_BYTES(hdn, DHL);
	ND_BYTES(n1, 3); ND_BYTES(e1, 2); ND_BYTES(n2, 3); ND_BYTES(e2, 2); ND_BYTES(q1, 5); ND_BYTES(q2, 5);
	ta.flags = ND_U32();
	ta.pkey.key_type = ND_U8();
#if PART == 3
	ND_BYTES(xc.current_dn_hash, DHL);
	xc.pkey.key_type = ND_U8();
	ASSUME(xc.pkey.key_type == BR_KEYTYPE_RSA || xc.pkey.key_type == BR_KEYTYPE_EC || xc.pkey.key_type == 0);
	int kt = xc.pkey.key_type;
	int keyeq;
	if (kt == BR_KEYTYPE_RSA) {
		size_t ln1 = ND_SIZE(), ln2 = ND_SIZE(); ASSUME(ln1 <= 3 && ln2 <= 3);
		xc.pkey.key.rsa.n = n1; xc.pkey.key.rsa.nlen = ln1; xc.pkey.key.rsa.e = e1; xc.pkey.key.rsa.elen = 2;
		ta.pkey.key.rsa.n = n2; ta.pkey.key.rsa.nlen = ln2; ta.pkey.key.rsa.e = e2; ta.pkey.key.rsa.elen = 2;
		uint32_t v1 = 0, v2 = 0;
		for (size_t i = 0; i < 3; i++) { if (i < ln1) v1 = (v1 << 8) | n1[i]; if (i < ln2) v2 = (v2 << 8) | n2[i]; }
		keyeq = (v1 == v2) && (((e1[0] << 8) | e1[1]) == ((e2[0] << 8) | e2[1]));
	} else {
		xc.pkey.key.ec.curve = ND_U8(); ta.pkey.key.ec.curve = ND_U8();
		size_t lq1 = ND_SIZE(), lq2 = ND_SIZE(); ASSUME(lq1 <= 5 && lq2 <= 5);
		xc.pkey.key.ec.q = q1; xc.pkey.key.ec.qlen = lq1; ta.pkey.key.ec.q = q2; ta.pkey.key.ec.qlen = lq2;
		keyeq = xc.pkey.key.ec.curve == ta.pkey.key.ec.curve && lq1 == lq2;
		for (size_t i = 0; i < 5; i++) if (i < lq1 && q1[i] != q2[i]) keyeq = 0;
	}
	int dneq = 1;
	for (int i = 0; i < DHL; i++) if (hdn[i] != xc.current_dn_hash[i]) dneq = 0;
	int r = check_single_direct_trust(&xc, hdn, &ta);
	int ref = !(ta.flags & BR_X509_TA_CA) && dneq && kt != 0 && (ta.pkey.key_type & 0x0F) == kt && keyeq;
	CHECK(r == ref, "direct trust exactly when: anchor is not a CA, same hashed name, same key type, same key");
	if (r) { if (kt == BR_KEYTYPE_RSA) { WITNESS_POINT("direct trust RSA"); } else { WITNESS_POINT("direct trust EC"); } } else { WITNESS_POINT("no direct trust"); }
#else
	ND_BYTES(xc.saved_dn_hash, DHL);
	xc.cert_signer_key_type = ND_U8();
	ASSUME(xc.cert_signer_key_type == BR_KEYTYPE_RSA || xc.cert_signer_key_type == BR_KEYTYPE_EC);
	xc.irsa = (ND_U8() & 1) ? stub_rsa : 0;
	xc.iecdsa = (ND_U8() & 1) ? stub_ec : 0;
	xc.iec = NULL;
	xc.cert_sig_hash_oid = 61; xc.cert_sig_hash_len = 20; xc.cert_sig_len = 4;
	ND_BYTES(xc.tbs_hash, 20); ND_BYTES(v_rec, 20);
	v_res = ND_U8() & 1;
	int dneq = 1;
	for (int i = 0; i < DHL; i++) if (hdn[i] != xc.saved_dn_hash[i]) dneq = 0;
	int hasheq = 1;
	for (int i = 0; i < 20; i++) if (v_rec[i] != xc.tbs_hash[i]) hasheq = 0;
	int kt = xc.cert_signer_key_type;
	int r = check_single_trust_anchor_CA(&xc, hdn, &ta);
	int sigok = (ta.pkey.key_type & 0x0F) == kt && v_res == 1 &&
		(kt == BR_KEYTYPE_RSA ? (xc.irsa != 0 && hasheq) : (xc.iecdsa != 0));
	int ref = (ta.flags & BR_X509_TA_CA) && dneq && sigok;
	CHECK(r == ref, "CA anchor validates exactly when: CA flag, issuer's hashed name, key of the signer type, signature verified over the TBS hash");
	if (r) { CHECK(rsa_calls + ec_calls == 1 && v_key == (kt == BR_KEYTYPE_RSA ? (const void *)&ta.pkey.key.rsa : (const void *)&ta.pkey.key.ec), "verified with the anchor's key"); }
	if (r) { if (kt == BR_KEYTYPE_RSA) { WITNESS_POINT("CA anchor RSA"); } else { WITNESS_POINT("CA anchor EC"); } } else { WITNESS_POINT("CA anchor refused"); }
#endif
#endif
	return 0;
}
