#include <stddef.h>
void *memset(void *s, int c, size_t n){ unsigned char *p = s; for (size_t i = 0; i < n; i++) p[i] = (unsigned char)c; return s; }
void *memcpy(void *d, const void *s, size_t n){ unsigned char *p = d; const unsigned char *q = s; for (size_t i = 0; i < n; i++) p[i] = q[i]; return d; }
void *memmove(void *d, const void *s, size_t n){ unsigned char *p = d; const unsigned char *q = s; if (!__CPROVER_same_object(p, q) || p < q) { for (size_t i = 0; i < n; i++) p[i] = q[i]; } else { for (size_t i = n; i > 0; i--) p[i-1] = q[i-1]; } return d; }
int memcmp(const void *a, const void *b, size_t n){ const unsigned char *p = a, *q = b; for (size_t i = 0; i < n; i++) { if (p[i] != q[i]) return (int)p[i] - (int)q[i]; } return 0; }
size_t strlen(const char *s){ size_t n = 0; while (s[n] != 0) n++; return n; }
