/*
 * C17.A: every history of K_OPS operations, each chosen symbolically among
 * save(id_i, params) / load(id_i) / forget(id_i) over a universe of NIDS
 * distinct 32-byte session IDs, on the real ssl_lru.c with a store of
 * STORE_LEN bytes (concrete per query; capacity STORE_LEN/100), starting from
 * the cache as left by br_ssl_session_cache_lru_init(), run in lock-step with
 * the ghost abstract LRU map of C17_lru.h.
 *
 * Checked:
 *   black box, at every load of the history: the return value and the
 *               returned version / suite / master secret are exactly the
 *               ghost map's;
 *   white box, on the initial state and on the state after the history (this
 *               covers every shorter history too: pad with loads of an ID
 *               that was never saved; REPR_EACH_STEP=1 checks after every
 *               operation): the representation invariant R of C17_lru.h
 *               (c17_repr_ok, the predicate the inductive step C17_step.c
 *               assumes) holds, store_ptr = 100 * #entries, and the
 *               abstraction function: the j-th node of the recency list holds
 *               exactly the ghost map's j-th most recently used entry (masked
 *               ID, parameters, disabled mark);
 *   black box, after that: every ID of the universe is looked up once
 *               (observation phase) and compared with the ghost map, which
 *               makes the effect of the last operations on contents and
 *               recency visible without looking inside.
 *
 * OPSEQ (optional) fixes the operation kinds of the history, the IDs stay
 * symbolic.  LAZY_INIT=1 leaves init_done = 0 so that the first save draws the
 * index key from the (stub) DRBG of a server context.  SYM_STORE=1 starts
 * from a store with symbolic content.
 *
 * Three bytes of every session ID are symbolic (pairwise-distinct IDs), so
 * all relative orders of the masked IDs (tree shapes) are covered; index key
 * and saved parameters are symbolic as described at sym_pos().
 */
#include "common.h"
#include "C17_lru.h"

#ifndef K_OPS
#define K_OPS 4
#endif
#ifndef NIDS
#define NIDS 4
#endif
#ifndef FULLSYM_IDS
#define FULLSYM_IDS 0
#endif
#ifndef LAZY_INIT
#define LAZY_INIT 0
#endif
#ifndef SYM_STORE
#define SYM_STORE 0
#endif
#ifndef REPR_EACH_STEP
#define REPR_EACH_STEP 0
#endif

static unsigned char ids[NIDS][32];
static unsigned char mids[NIDS][32];    /* expected masked IDs (stub definition) */
static unsigned char key[32];
static br_ssl_session_cache_lru cc;
#if LAZY_INIT
static br_ssl_server_context sc;
#define SRV   (&sc)
#else
#define SRV   ((br_ssl_server_context *)0)
#endif

static unsigned saw_hit, saw_forgotten_miss, saw_evict, saw_two_children,
	saw_dup_save, saw_refresh;

/*
 * Symbolic byte positions.  Unless FULLSYM_IDS, only three bytes of every ID
 * (first, middle, last), the key bytes they are masked with, and three bytes
 * of every master secret are symbolic; all other bytes are 0, like the
 * initial store, so that most byte comparisons fold during symbolic
 * execution.  This loses nothing that the typed store access of C17_lru.h
 * does not already pin down: ID and master-secret fields are only ever
 * copied whole (32/48 bytes at the field's own address).
 */
static int
sym_pos(int b)
{
	return FULLSYM_IDS || b == 0 || b == 15 || b == 31;
}

static int
sym_ms(int b)
{
	return FULLSYM_IDS || b == 0 || b == 20 || b == 47;
}

static int
ids_equal(unsigned a, unsigned b)
{
	int eq = 1;
	for (int i = 0; i < 32; i++) {
		if (ids[a][i] != ids[b][i]) {
			eq = 0;
		}
	}
	return eq;
}

static ent view[GSZ];
static unsigned view_order[GSZ];

/*
 * Representation invariant R (the same predicate the inductive-step harness
 * C17_step.c assumes and re-establishes) + abstraction function: the j-th
 * node of the recency list holds exactly the j-th entry of the ghost map.
 */
static void
check_repr(void)
{
#ifdef NO_REPR
	return;
#endif
#if LAZY_INIT
	if (!cc.init_done) {
		CHECK(gn == 0 && cc.store_ptr == 0 && cc.head == ADDR_NULL
			&& cc.tail == ADDR_NULL && cc.root == ADDR_NULL,
			"uninitialised cache is empty");
		return;
	}
#endif
	CHECK(cc.store_ptr == (size_t)LRU_ENTRY_LEN * gn,
		"store_ptr = 100 * number of entries held by the abstract map");
	CHECK(cc.store == c17_store && cc.store_len == STORE_LEN,
		"store pointer and length unchanged");
	c17_read_entries(view);
	CHECK(c17_repr_ok(&cc, view, gn, view_order),
		"representation invariant R holds on the state reached by the history");
	for (unsigned j = 0; j < CAP; j++) {
		if (j < gn) {
			for (unsigned e = 0; e < CAP; e++) {
				if (view_order[j] == e) {
					int ok = 0;

					for (unsigned a = 0; a < NIDS; a++) {
						if (g[j].idx == a) {
							ok = 1;
							for (int i = 0; i < 32; i++) {
								if (view[e].id[i] != mids[a][i]) {
									ok = 0;
								}
							}
						}
					}
					CHECK(ok, "recency list: j-th node holds the (masked) j-th most recently used ID of the abstract map");
					if (g[j].disabled) {
						CHECK(view[e].ver == 0, "disabled entry carries version 0");
					} else {
						ok = (view[e].ver == g[j].ver) & (view[e].suite == g[j].suite);
						for (int i = 0; i < 48; i++) {
							if (view[e].ms[i] != g[j].ms[i]) {
								ok = 0;
							}
						}
						CHECK(ok, "stored parameters are the ones saved under that ID");
					}
				}
			}
		}
	}
}

static void
get_id(unsigned w, unsigned char *dst)
{
	for (unsigned a = 0; a < NIDS; a++) {
		if (w == a) {
			for (int i = 0; i < 32; i++) {
				dst[i] = ids[a][i];
			}
		}
	}
}

static void
do_load(unsigned w)
{
	br_ssl_session_parameters p;
	unsigned char id[32];
	g_entry ge;
	int r, gr, ok, j;
	unsigned was_front;

	get_id(w, id);
	for (int i = 0; i < 32; i++) {
		p.session_id[i] = id[i];
	}
	p.session_id_len = 32;
	p.version = 0;
	p.cipher_suite = 0;
	for (int i = 0; i < 48; i++) {
		p.master_secret[i] = 0;
	}
	j = g_find(w);
	for (unsigned k = 0; k < CAP; k++) {
		if ((int)k == j && g[k].disabled) {
			saw_forgotten_miss = 1;
		}
	}
	was_front = (j == 0);
	r = cc.vtable->load(&cc.vtable, SRV, &p);
	gr = g_load(w, &ge);
	CHECK(r == gr, "load succeeds iff the abstract LRU map holds an enabled entry for that ID");
	if (r == 1 && gr == 1) {
		ok = (p.version == ge.ver) & (p.cipher_suite == ge.suite);
		for (int i = 0; i < 48; i++) {
			if (p.master_secret[i] != ge.ms[i]) {
				ok = 0;
			}
		}
		CHECK(ok, "load returns exactly the version, suite and master secret saved under that ID");
		saw_hit = 1;
		if (!was_front) {
			saw_refresh = 1;
		}
	}
	ok = 1;
	for (int i = 0; i < 32; i++) {
		if (p.session_id[i] != id[i]) {
			ok = 0;
		}
	}
	CHECK(ok && p.session_id_len == 32, "load leaves the session ID in params untouched");
}

#ifdef OPSEQ
static const uint8_t opseq[K_OPS] = { OPSEQ };
#endif

int
main(void)
{
	static uint8_t op[K_OPS], which[K_OPS];
	static uint16_t ver[K_OPS], suite[K_OPS];
	static unsigned char ms[K_OPS][48];

	/* all symbolic input, in straight-line order */
	for (int b = 0; b < 32; b++) {
		key[b] = sym_pos(31 - b) ? ND_U8() : 0;
	}
	for (int a = 0; a < NIDS; a++) {
		for (int b = 0; b < 32; b++) {
			ids[a][b] = sym_pos(b) ? ND_U8() : 0;
		}
	}
#if SYM_STORE
	/* the store is whatever memory the application provides */
	ND_BYTES(c17_store, STORE_LEN);
#endif
	for (int k = 0; k < K_OPS; k++) {
#ifdef OPSEQ
		op[k] = opseq[k];       /* operation kinds fixed by the query */
#else
		op[k] = ND_U8();
#endif
		which[k] = ND_U8();
		ver[k] = ND_U16();
		suite[k] = ND_U16();
		for (int b = 0; b < 48; b++) {
			ms[k][b] = sym_ms(b) ? ND_U8() : 0;
		}
	}
	for (int a = 0; a < NIDS; a++) {
		for (int b = a + 1; b < NIDS; b++) {
			ASSUME(!ids_equal(a, b));
		}
	}
	for (int k = 0; k < K_OPS; k++) {
		ASSUME(op[k] <= 2);
		ASSUME(which[k] < NIDS);
	}

	for (int a = 0; a < NIDS; a++) {
		c17_mask(key, ids[a], mids[a]);
	}
	br_ssl_session_cache_lru_init(&cc, c17_store, STORE_LEN);
#if LAZY_INIT
	/* index key and hash come from the server context's DRBG on first save */
	for (int i = 0; i < 32; i++) {
		c17_drbg_out[i] = key[i];
	}
	sc.eng.rng.digest_class = &c17_hash;
#else
	for (int i = 0; i < 32; i++) {
		cc.index_key[i] = key[i];
	}
	cc.hash = &c17_hash;
	cc.init_done = 1;
#endif
	check_repr();       /* init establishes R with the empty map */

	for (int k = 0; k < K_OPS; k++) {
		unsigned w = which[k];

		if (op[k] == 0) {
			br_ssl_session_parameters p;

			get_id(w, p.session_id);
			p.session_id_len = 32;
			p.version = ver[k];
			p.cipher_suite = suite[k];
			for (int i = 0; i < 48; i++) {
				p.master_secret[i] = ms[k][i];
			}
			if (CAP > 0 && g_find(w) >= 0) {
				saw_dup_save = 1;
			}
			if (CAP > 0 && g_find(w) < 0 && gn == CAP) {
				saw_evict = 1;
#if CAP >= 3
				c17_read_entries(view);
				for (unsigned e = 0; e < CAP; e++) {
					if (cc.tail == 100 * e && view[e].left != ADDR_NULL
						&& view[e].right != ADDR_NULL)
					{
						saw_two_children = 1;
					}
				}
#endif
			}
			cc.vtable->save(&cc.vtable, SRV, &p);
			g_save(w, &p);
		} else if (op[k] == 1) {
			do_load(w);
		} else {
			unsigned char id[32];

			get_id(w, id);
			br_ssl_session_cache_lru_forget(&cc, id);
			g_forget(w);
		}
#if REPR_EACH_STEP
		check_repr();
#endif
	}
	/*
	 * One check of the representation after the history covers every
	 * shorter history too: a state reached after j < K_OPS operations is
	 * also reached after K_OPS operations (pad with loads of an ID that
	 * was never saved, which change nothing).
	 */
	check_repr();

	/* observation phase: look every ID up once */
	for (unsigned a = 0; a < NIDS; a++) {
		do_load(a);
	}
#if REPR_EACH_STEP
	check_repr();
#endif
	CHECK(c17_hmac_bad == 0, "mask_id drives the HMAC seam as documented (cc->hash, 32-byte key, one 32-byte update, 32-byte output)");
#if LAZY_INIT
	CHECK(c17_drbg_calls <= 1, "index key drawn at most once");
#else
	CHECK(c17_drbg_calls == 0, "no re-keying of an initialised cache");
#endif

#if CAP == 0
	WITNESS_POINT("history completes on a cache without room for any entry");
#else
	if (saw_hit) { WITNESS_POINT("some history has a successful load"); }
	if (saw_forgotten_miss) { WITNESS_POINT("some history looks up a forgotten ID"); }
#if K_OPS >= 2
	if (saw_dup_save) { WITNESS_POINT("some history saves under an ID the cache still holds"); }
#endif
#if K_OPS > CAP && NIDS > CAP
	if (saw_evict) { WITNESS_POINT("some history evicts"); }
#endif
#if CAP >= 2 && K_OPS >= 3
	if (saw_refresh) { WITNESS_POINT("some history refreshes a non-head entry by a load"); }
#endif
#if CAP >= 3 && K_OPS >= 4 && NIDS >= 4
	if (saw_two_children) { WITNESS_POINT("some history evicts a tree node that has two children"); }
#endif
#endif
	return 0;
}
