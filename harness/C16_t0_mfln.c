/*
 * C16 (T0 part): maximum-fragment-length natives (E2 extraction).
 *
 * -DMODE=0 (ssl_hs_client.c) set-mfln-status ( val -- ): records whether the
 *    server echoed the max_fragment_length extension; afterwards
 *    br_ssl_engine_get_mfln_negotiated() reports exactly that value and the
 *    fragment-length registers are untouched.  The operand is one of the
 *    literals found at the call sites (checked on the bytecode by the query
 *    generator: 0 when the ServerHello starts, 1 in read-server-frag).
 * -DMODE=1 (ssl_hs_server.c) set-max-frag-len ( len -- ): hands the new length
 *    to br_ssl_engine_new_max_frag_len (link seam: recording stub) for this
 *    engine, and clamps the room of the output record being assembled
 *    (hlen_out) to it; never enlarges it.
 */
#define T0N_PRE_INCLUDE "C05_t0f.h"
#ifndef MODE
#define MODE 0
#endif
#if MODE == 0
#include "t0n_hsc.c"
#include "t0n_hsc_ops.h"
#else
#include "t0n_hss.c"
#include "t0n_hss_ops.h"
static T0N_CTXT *the;
static int nm_calls, nm_ok; static unsigned nm_len;
void br_ssl_engine_new_max_frag_len(br_ssl_engine_context *cc, unsigned max_frag_len) { nm_calls ++; nm_ok = (cc == &the->eng); nm_len = max_frag_len; }
#endif

int
main(void)
{
	T0N_CTXT cc;
	T0N_CTXT *c = &cc;
	uint32_t d0;
#ifdef NATIVE_REPLAY
	NATIVE_FILL(c, sizeof *c);
#endif
	T0F_DEPTH_AT(5);
	d0 = t0n_dpi;
	t0n_co = 0;
#if MODE == 0
	{
		uint32_t v = ND_U32();
		unsigned mf = ND_U16(), lg = ND_U8(), pl = ND_U8();
		ASSUME(v == 0 || v == 1);
		c->eng.max_frag_len = (uint16_t)mf; c->eng.log_max_frag_len = (unsigned char)lg; c->eng.peer_log_max_frag_len = (unsigned char)pl;
		c->eng.max_frag_len_negotiated = ND_U8();
		T0F_PUSH(c, v);
		C05_DISPATCH(c, C05_OP_set_mfln_status);
		CHECK(t0n_dpi == d0 && t0n_co == 0, "operand consumed");
		CHECK(br_ssl_engine_get_mfln_negotiated(&c->eng) == v, "br_ssl_engine_get_mfln_negotiated reports the recorded status");
		CHECK(c->eng.max_frag_len == mf && c->eng.log_max_frag_len == lg && c->eng.peer_log_max_frag_len == pl, "fragment length registers untouched");
		if (v) { WITNESS_POINT("negotiated"); } else { WITNESS_POINT("not negotiated"); }
	}
#else
	{
		uint32_t len = ND_U32();
		size_t h0 = ND_SIZE();
		the = c;
		ASSUME(len == 512 || len == 1024 || len == 2048 || len == 4096);        /* 1 << (8 + code), code 1..4 (checked by the T0 code) */
		c->eng.hlen_out = h0;
		T0F_PUSH(c, len);
		C05_DISPATCH(c, C05_OP_set_max_frag_len);
		CHECK(t0n_dpi == d0 && t0n_co == 0, "operand consumed");
		CHECK(nm_calls == 1 && nm_ok && nm_len == len, "the engine is told the new maximum fragment length, once");
		CHECK(c->eng.hlen_out == (h0 > len ? len : h0), "room of the record being assembled clamped to the new length, never enlarged");
		if (h0 > len) { WITNESS_POINT("room clamped"); } else { WITNESS_POINT("room unchanged"); }
	}
#endif
	return 0;
}
