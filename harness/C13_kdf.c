/*
 * C13 PRF / HKDF / MGF1 / HMAC_DRBG: the real prf.c, prf_md5sha1.c,
 * prf_sha256.c, prf_sha384.c, hkdf.c, mgf1.c, hmac_drbg.c over the real
 * hmac.c and hash files (compression functions = call-log oracle,
 * C13_oracle.h), against references written from the RFCs / SP 800-90A.
 * The references call br_hmac_* (whose equality with RFC 2104 is the KEY
 * query of C13_hmac.c) in the order the specification's data flow imposes.
 *
 *  -DHF=1..6 hash for MODE 1,4,5,6 (7 for MODE 2 = MD5 and SHA-1)
 *  -DMODE=
 *   1 PHASH  br_tls_phash == RFC 5246 5. P_hash, XORed into dst; seed as one
 *            chunk and as SD1 + 0 + (SDL-SD1) bytes chunks; SL secret
 *            length, SDL seed length, OUTL output length
 *   2 TLS10  br_tls10_prf == RFC 2246 5. (P_MD5(S1) xor P_SHA-1(S2))
 *   3 TLS12  br_tls12_sha256_prf (HF=4) / br_tls12_sha384_prf (HF=5) ==
 *            RFC 5246 5. PRF; dst previous contents ignored
 *   4 HKDF   br_hkdf_* == RFC 5869 (salt SALTL bytes or NO_SALT with
 *            SALTL=-1, IKM in two injects, info INFL bytes, OUTL bytes
 *            produced as O1 + 0 + (OUTL-O1))
 *   5 MGF1   br_mgf1_xor == RFC 8017 B.2.1 XORed into data
 *   6 DRBG   br_hmac_drbg_init/generate/update/generate == SP 800-90A
 *            10.1.2 (no reseed counter, no additional input in generate)
 */
#include "common.h"
#ifndef HF
#define HF 1
#endif
#if HF == 1 || HF == 7
#define C13_UF_MD5 1
#endif
#if HF == 2 || HF == 7
#define C13_UF_SHA1 1
#endif
#if HF == 3 || HF == 4
#define C13_UF_SHA2S 1
#endif
#if HF == 5 || HF == 6
#define C13_UF_SHA2B 1
#endif
#include "C13_oracle.h"
#if HF == 5 || HF == 6
#include "src/hash/sha2big.c"
#undef sha2big_round
#endif
#define H_MSGMAX 1
#include "C13_hashdefs.h"

#ifndef MODE
#define MODE 1
#endif
#ifndef SL
#define SL 12
#endif
#ifndef SDL
#define SDL 20
#endif
#ifndef SD1
#define SD1 7
#endif
#ifndef OUTL
#define OUTL 37
#endif
#ifndef SALTL
#define SALTL 5
#endif
#ifndef IKML
#define IKML 11
#endif
#ifndef INFL
#define INFL 3
#endif
#ifndef O1
#define O1 5
#endif
/* ONECHUNK=1: run the PRF with the seed as one chunk AND as three chunks;
   0: only as three chunks (SD1 + 0 + rest bytes) */
#ifndef ONECHUNK
#define ONECHUNK 1
#endif
/* DRBG: PHASE2=1 adds update(seed2) and a second generate */
#ifndef PHASE2
#define PHASE2 1
#endif

static const char label[] = "key expansion";
#define LABL 13

/* ---------- P_hash, RFC 5246 section 5 ---------- */
static void
ref_phash(unsigned char *dst, size_t len, const br_hash_class *dig,
	const unsigned char *secret, size_t secret_len, const unsigned char *seed, size_t seed_len)
{
	br_hmac_key_context kc;
	br_hmac_context hc;
	unsigned char a[64], t[64];
	size_t hlen = (dig->desc >> BR_HASHDESC_OUT_OFF) & BR_HASHDESC_OUT_MASK;
	size_t done = 0;
	if (len == 0) return;
	br_hmac_key_init(&kc, dig, secret, secret_len);
	/* A(1) = HMAC(secret, label + seed) */
	br_hmac_init(&hc, &kc, 0);
	br_hmac_update(&hc, label, LABL);
	br_hmac_update(&hc, seed, seed_len);
	br_hmac_out(&hc, a);
	while (done < len) {
		/* HMAC(secret, A(i) + label + seed) */
		br_hmac_init(&hc, &kc, 0);
		br_hmac_update(&hc, a, hlen);
		br_hmac_update(&hc, label, LABL);
		br_hmac_update(&hc, seed, seed_len);
		br_hmac_out(&hc, t);
		for (size_t i = 0; i < hlen && done < len; i++) dst[done++] ^= t[i];
		if (done < len) {
			/* A(i+1) = HMAC(secret, A(i)) */
			br_hmac_init(&hc, &kc, 0);
			br_hmac_update(&hc, a, hlen);
			br_hmac_out(&hc, a);
		}
	}
}

/* one HMAC over up to three parts with a prepared key context */
static void
ref_hmac3(const br_hmac_key_context *kc, const void *p1, size_t n1, const void *p2, size_t n2,
	const void *p3, size_t n3, unsigned char *out)
{
	br_hmac_context hc;
	br_hmac_init(&hc, kc, 0);
	if (n1) br_hmac_update(&hc, p1, n1);
	if (n2) br_hmac_update(&hc, p2, n2);
	if (n3) br_hmac_update(&hc, p3, n3);
	br_hmac_out(&hc, out);
}

int main(void)
{
	const br_hash_class *vt = &H_VTABLE;
	c13_oracle_init();
	c13_seam_check();
	(void)vt;

#if MODE == 1 || MODE == 2 || MODE == 3
	unsigned char secret[SL + 1], seed[SDL + 1], init[OUTL + 1], r[OUTL + 1], o1[OUTL + 1], o2[OUTL + 1];
	ND_BYTES(secret, SL);
	ND_BYTES(seed, SDL);
	ND_BYTES(init, OUTL);
	br_tls_prf_seed_chunk one[1] = { { seed, SDL } };
	br_tls_prf_seed_chunk three[3] = { { seed, SD1 }, { seed + SD1, 0 }, { seed + SD1, SDL - SD1 } };
	c13_A(0);
#if MODE == 1
	for (size_t i = 0; i < OUTL; i++) r[i] = o1[i] = o2[i] = init[i];
	ref_phash(r, OUTL, vt, secret, SL, seed, SDL);
	c13_B(0, 0);
	br_tls_phash(o1, OUTL, vt, secret, SL, label, ONECHUNK ? 1 : 3, ONECHUNK ? one : three);
	c13_recycle();
	c13_B(0, 0);
	br_tls_phash(o2, OUTL, vt, secret, SL, label, 3, three);
#elif MODE == 2
	for (size_t i = 0; i < OUTL; i++) { r[i] = 0; o1[i] = o2[i] = init[i]; }
	{
		size_t half = (SL + 1) / 2;
		ref_phash(r, OUTL, &br_md5_vtable, secret, half, seed, SDL);
		ref_phash(r, OUTL, &br_sha1_vtable, secret + SL - half, half, seed, SDL);
	}
	c13_B(0, 0);
	br_tls10_prf(o1, OUTL, secret, SL, label, ONECHUNK ? 1 : 3, ONECHUNK ? one : three);
#if ONECHUNK
	c13_recycle();
	c13_B(0, 0);
	br_tls10_prf(o2, OUTL, secret, SL, label, 3, three);
#else
	for (size_t i = 0; i < OUTL; i++) o2[i] = o1[i];
#endif
#else
	for (size_t i = 0; i < OUTL; i++) { r[i] = 0; o1[i] = o2[i] = init[i]; }
	ref_phash(r, OUTL, vt, secret, SL, seed, SDL);
	c13_B(0, 0);
#if HF == 4
	br_tls12_sha256_prf(o1, OUTL, secret, SL, label, ONECHUNK ? 1 : 3, ONECHUNK ? one : three);
#if ONECHUNK
	c13_recycle();
	c13_B(0, 0);
	br_tls12_sha256_prf(o2, OUTL, secret, SL, label, 3, three);
#else
	for (size_t i = 0; i < OUTL; i++) o2[i] = o1[i];
#endif
#else
	br_tls12_sha384_prf(o1, OUTL, secret, SL, label, ONECHUNK ? 1 : 3, ONECHUNK ? one : three);
#if ONECHUNK
	c13_recycle();
	c13_B(0, 0);
	br_tls12_sha384_prf(o2, OUTL, secret, SL, label, 3, three);
#else
	for (size_t i = 0; i < OUTL; i++) o2[i] = o1[i];
#endif
#endif
#endif
	for (size_t i = 0; i < OUTL; i++) CHECK(o1[i] == r[i], "PRF output == RFC reference");
	for (size_t i = 0; i < OUTL; i++) CHECK(o2[i] == r[i], "PRF with the seed in three chunks == RFC reference");
	WITNESS_POINT("PRF checked");

#elif MODE == 4
#if SALTL < 0
#define SALTN 0
#else
#define SALTN SALTL
#endif
	unsigned char salt[SALTN + 1], ikm[IKML + 1], info[INFL + 1], r[OUTL + 64], o[OUTL + 1];
	ND_BYTES(salt, SALTN);
	ND_BYTES(ikm, IKML);
	ND_BYTES(info, INFL);
	c13_A(0);
	{
		/* RFC 5869 2.2 / 2.3 */
		br_hmac_key_context kc;
		unsigned char prk[64], zero[64], t[64], ctr;
		size_t done = 0, tl = 0;
		for (int i = 0; i < 64; i++) zero[i] = 0;
#if SALTL < 0
		br_hmac_key_init(&kc, vt, zero, H_OUTLEN);
#else
		br_hmac_key_init(&kc, vt, salt, SALTN);
#endif
		ref_hmac3(&kc, ikm, IKML, 0, 0, 0, 0, prk);
		br_hmac_key_init(&kc, vt, prk, H_OUTLEN);
		ctr = 0;
		while (done < OUTL) {
			ctr++;
			ref_hmac3(&kc, t, tl, info, INFL, &ctr, 1, t);
			tl = H_OUTLEN;
			for (size_t i = 0; i < H_OUTLEN && done < OUTL; i++) r[done++] = t[i];
		}
	}
	c13_B(0, 0);
	br_hkdf_context hk;
	/* (no garbage fill here: 400 byte writes into the nested unions of br_hkdf_context cost minutes of symex) */
#if SALTL < 0
	br_hkdf_init(&hk, vt, BR_HKDF_NO_SALT, 77);
#else
	br_hkdf_init(&hk, vt, salt, SALTN);
#endif
	/* CBMC does not fold the read of out_len through the union inside
	   br_hkdf_context back to a constant, and every later loop bound would
	   be symbolic: prove the value, then continue on the path where it is
	   that constant (a no-op for the program) */
	CHECK(hk.dig_len == H_OUTLEN, "br_hkdf_init records the digest length");
	if (hk.dig_len == H_OUTLEN) hk.dig_len = H_OUTLEN; else FINISH();
	br_hkdf_inject(&hk, ikm, IKML / 2);
	br_hkdf_inject(&hk, ikm + IKML / 2, IKML - IKML / 2);
	br_hkdf_flip(&hk);
	size_t n1 = br_hkdf_produce(&hk, info, INFL, o, O1);
	size_t n2 = br_hkdf_produce(&hk, info, INFL, o + O1, 0);
	size_t n3 = br_hkdf_produce(&hk, info, INFL, o + O1, OUTL - O1);
	CHECK(n1 == O1 && n2 == 0 && n3 == OUTL - O1, "br_hkdf_produce returns the produced length");
	for (size_t i = 0; i < OUTL; i++) CHECK(o[i] == r[i], "HKDF output == RFC 5869 reference");
	WITNESS_POINT("HKDF checked");

#elif MODE == 5
	unsigned char seed[SDL + 1], init[OUTL + 1], o[OUTL + 1], r[OUTL + 64];
	ND_BYTES(seed, SDL);
	ND_BYTES(init, OUTL);
	for (size_t i = 0; i < OUTL; i++) o[i] = init[i];
	c13_A(0);
	{
		/* RFC 8017 B.2.1: T = T || Hash(mgfSeed || I2OSP(counter, 4)) */
		size_t done = 0;
		uint32_t c = 0;
		while (done < OUTL) {
			H_CTX hc;
			unsigned char cb[4], t[H_OUTLEN];
			cb[0] = (unsigned char)(c >> 24); cb[1] = (unsigned char)(c >> 16); cb[2] = (unsigned char)(c >> 8); cb[3] = (unsigned char)c;
			H_INIT(&hc);
			H_UPDATE(&hc, seed, SDL);
			H_UPDATE(&hc, cb, 4);
			H_OUT(&hc, t);
			for (size_t i = 0; i < H_OUTLEN && done < OUTL; i++, done++) r[done] = init[done] ^ t[i];
			c++;
		}
	}
	c13_B(0, 0);
	br_mgf1_xor(o, OUTL, vt, seed, SDL);
	for (size_t i = 0; i < OUTL; i++) CHECK(o[i] == r[i], "MGF1 mask == RFC 8017 B.2.1 reference");
	WITNESS_POINT("MGF1 checked");

#elif MODE == 6
#ifndef SD2
#define SD2 4
#endif
#ifndef OUT2
#define OUT2 3
#endif
	unsigned char seed[SDL + 1], seed2[SD2 + 1], r[OUTL + OUT2 + 64], o[OUTL + OUT2 + 1];
	ND_BYTES(seed, SDL);
	ND_BYTES(seed2, SD2);
	unsigned char K[64], V[64], zero = 0x00, one = 0x01;
	br_hmac_key_context kc;
	c13_A(0);
	/* SP 800-90A 10.1.2.3 instantiate: K = 00..00, V = 01..01, update(seed) */
	for (int i = 0; i < 64; i++) { K[i] = 0x00; V[i] = 0x01; }
	/* 10.1.2.2 update(provided_data):
	     K = HMAC(K, V || 0x00 || data); V = HMAC(K, V);
	     if data is empty return;
	     K = HMAC(K, V || 0x01 || data); V = HMAC(K, V)
	   (a key context is prepared once per value of K) */
#define REF_UPDATE_TAIL(data, n) do { \
		ref_hmac3(&kc, V, H_OUTLEN, &zero, 1, data, n, K); \
		br_hmac_key_init(&kc, vt, K, H_OUTLEN); \
		ref_hmac3(&kc, V, H_OUTLEN, 0, 0, 0, 0, V); \
		if ((n) != 0) { \
			ref_hmac3(&kc, V, H_OUTLEN, &one, 1, data, n, K); \
			br_hmac_key_init(&kc, vt, K, H_OUTLEN); \
			ref_hmac3(&kc, V, H_OUTLEN, 0, 0, 0, 0, V); \
		} \
	} while (0)
	/* 10.1.2.5 generate: while len(temp) < n: V = HMAC(K, V); temp ||= V; then update(empty) */
#define REF_GENERATE(dst, n) do { \
		size_t done_ = 0; \
		br_hmac_key_init(&kc, vt, K, H_OUTLEN); \
		while (done_ < (n)) { \
			ref_hmac3(&kc, V, H_OUTLEN, 0, 0, 0, 0, V); \
			for (size_t i_ = 0; i_ < H_OUTLEN && done_ < (n); i_++) (dst)[done_++] = V[i_]; \
		} \
		REF_UPDATE_TAIL((unsigned char *)0, 0); \
	} while (0)
	br_hmac_key_init(&kc, vt, K, H_OUTLEN);
	REF_UPDATE_TAIL(seed, SDL);
	REF_GENERATE(r, OUTL);
#if PHASE2
	br_hmac_key_init(&kc, vt, K, H_OUTLEN);
	REF_UPDATE_TAIL(seed2, SD2);
	REF_GENERATE(r + OUTL, OUT2);
#endif

	c13_B(0, 0);
	br_hmac_drbg_context dc;
	ND_BYTES(&dc, sizeof dc);
	br_hmac_drbg_init(&dc, vt, seed, SDL);
	CHECK(dc.vtable == &br_hmac_drbg_vtable && br_hmac_drbg_get_hash(&dc) == vt, "init sets vtable and hash");
	br_hmac_drbg_generate(&dc, o, OUTL);
#if PHASE2
	br_hmac_drbg_update(&dc, seed2, SD2);
	dc.vtable->generate(&dc.vtable, o + OUTL, OUT2);
#endif
	for (size_t i = 0; i < OUTL + (PHASE2 ? OUT2 : 0); i++) CHECK(o[i] == r[i], "HMAC_DRBG output == SP 800-90A reference");
	for (size_t i = 0; i < H_OUTLEN; i++) CHECK(dc.K[i] == K[i] && dc.V[i] == V[i], "HMAC_DRBG state == SP 800-90A reference");
	WITNESS_POINT("HMAC_DRBG checked");
#endif
	return 0;
}
