/*
 * C16.b / C16.c: outgoing record sizes.  Real set_buffers_bidi,
 * br_ssl_engine_new_max_frag_len and make_ready_out (src/ssl/ssl_engine.c,
 * included for the static function) composed with the real max_plaintext of
 * one record protection (src/ssl/ssl_rec_*.c, linked, reached through its
 * public vtable exactly as the engine reaches it).
 *
 * For EVERY admissible pair of buffer sizes (symbolic, whole size_t range,
 * shared or split), with or without a smaller negotiated fragment length:
 *   n = oxb - oxa <= min(16384, max_frag_len), n >= 1;
 *   oxa >= number of bytes `encrypt` writes before the plaintext pointer
 *          (header, explicit IV / nonce, the extra 1/n-1 record);
 *   for every len <= n (symbolic): oxa + len + trailing bytes (MAC, padding,
 *          tag) <= obuf_len, i.e. the record(s) built in place end inside the
 *          buffer.
 * The "bytes before" and "trailing bytes" are written here from the RFCs
 * (5246 6.2.3, 5288, 6655, 7905), not from the code; C01.b runs the real
 * encrypt in small concrete buffers and confirms them byte for byte.
 * Then (C16.c) br_ssl_engine_new_max_frag_len with any standard length:
 * never grows oxb, keeps oxa <= oxb, and caps a fresh record at the new length.
 *
 * No buffer byte is touched: the buffers are 8-byte arrays, only their
 * lengths matter.
 * MODE 0 clear, 1 cbc (ML, BLK, EXPL), 2 gcm, 3 ccm (TAG), 4 chapol.
 */
#include "common.h"
#include "src/ssl/ssl_engine.c"

#ifndef MODE
#define MODE 0
#endif
#ifndef ML
#define ML 20
#endif
#ifndef BLK
#define BLK 16
#endif
#ifndef EXPL
#define EXPL 1
#endif
#ifndef TAG
#define TAG 16
#endif

/* the context is an uninitialised local of main (arbitrary previous content);
 * a zero-initialised static one makes CBMC's union write in set_buffers_bidi
 * (rc->out.vtable = ...) blow up */
/* bytes following n plaintext bytes inside the record */
#if MODE == 0
#define TRAIL(n) ((size_t)0)
#elif MODE == 1
#define TRAIL(n) ((((n) + ML) / BLK + 1) * BLK - (n))	/* MAC, then 1..BLK bytes of padding */
#elif MODE == 3
#define TRAIL(n) ((size_t)TAG)
#else
#define TRAIL(n) ((size_t)16)
#endif
static br_ssl_engine_context *rcp;
#define rc (*rcp)
static unsigned char ib[8], ob[8];
static const br_block_cbcenc_class blkclass = { 0, BLK, (BLK == 16 ? 4 : 3), 0, 0 };

static int is_std(size_t f) { return f == 512 || f == 1024 || f == 2048 || f == 4096 || f == 16384; }

int main(void)
{
	br_ssl_engine_context store;
#ifdef NATIVE_REPLAY
	NATIVE_FILL(&store, sizeof store);
#endif
	rcp = &store;
	size_t ilen = ND_SIZE(), olen = ND_SIZE();
	int shared = ND_U8() & 1;
	if (shared) br_ssl_engine_set_buffers_bidi(&rc, ib, ilen, NULL, 0);
	else br_ssl_engine_set_buffers_bidi(&rc, ib, ilen, ob, olen);
	if (rc.iomode == BR_IO_FAILED) FINISH();	/* admissible sizes only (C16.a decides which) */
	const size_t OL = rc.obuf_len;

	/* optionally a smaller fragment length negotiated by the peer (server side of RFC 6066) */
	if (ND_U8() & 1) {
		unsigned nm = ND_U16();
		ASSUME(is_std(nm) && nm <= rc.max_frag_len);
		br_ssl_engine_new_max_frag_len(&rc, nm);
		CHECK(rc.max_frag_len == nm, "new_max_frag_len records the new length");
	}
	const size_t F = rc.max_frag_len;

	/* the outgoing protection, as switch_*_out / init would leave it */
#if MODE == 1
	rc.out.cbc.vtable = &br_sslrec_out_cbc_vtable;
	rc.out.cbc.bc.vtable = &blkclass;
	rc.out.cbc.mac_len = ML;
	rc.out.cbc.explicit_IV = EXPL;
#elif MODE == 2
	rc.out.gcm.vtable.out = &br_sslrec_out_gcm_vtable;
#elif MODE == 3
	rc.out.ccm.vtable.out = &br_sslrec_out_ccm_vtable;
	rc.out.ccm.tag_len = TAG;
#elif MODE == 4
	rc.out.chapol.vtable.out = &br_sslrec_out_chapol_vtable;
#endif
	/* bytes written before the plaintext pointer */
#if MODE == 0 || MODE == 4
	const size_t pre = 5;
#elif MODE == 1 && EXPL
	const size_t pre = 5 + BLK;
#elif MODE == 1
	/* 1/n-1: header + (1 byte + MAC + padding) + header, minus the byte that moved */
	const size_t pre = 5 + ((1 + ML) / BLK + 1) * BLK + 5 - 1;
#else
	const size_t pre = 5 + 8;
#endif

	/* (1) max_plaintext on its own, for ANY buffer length L >= 522 - not masked by
	 * the engine's max_frag_len cap.  Called the way make_ready_out calls it:
	 * free area [5, L - 5).  Documented contract (bearssl_ssl.h): "adjust start
	 * and end to make room for any record-specific header, MAC, padding, and
	 * possible split", i.e. everything ends inside the free area. */
	{
		size_t L = ND_SIZE(), s1 = 5, e0, e1;
		ASSUME(L >= 10 + 512 && L <= (size_t)-1 / 2);
		e0 = e1 = L - 5;
		rc.out.vtable->max_plaintext(&rc.out.vtable, &s1, &e1);
		CHECK(s1 >= pre && s1 <= e1 && e1 <= e0, "max_plaintext: room before the plaintext, start <= end, end not moved up");
		CHECK(e1 - s1 <= 16384 && e1 - s1 >= 1, "max_plaintext: between 1 and 16384 plaintext bytes");
		size_t l1 = ND_SIZE();
		ASSUME(l1 <= e1 - s1);
		CHECK(s1 + l1 + TRAIL(l1) <= e0, "max_plaintext: plaintext + MAC/padding/tag ends inside the free area");
#if MODE == 1 && !EXPL
		if (l1 >= 2) {
			size_t end2 = s1 + 1 + (l1 - 1) + TRAIL(l1 - 1);
#ifdef SPLIT_STRICT
			CHECK(end2 <= e0, "max_plaintext (documented contract): second record of a 1/n-1 split ends inside the free area");
#else
			/* what the engine relies on: make_ready_out holds 5 bytes back */
			CHECK(end2 <= L, "max_plaintext as called by make_ready_out: second record of a 1/n-1 split ends inside the buffer");
#endif
		}
#endif
		if (l1 == e1 - s1 && L > 20000) { WITNESS_POINT("contract: full area of a large buffer"); }
	}

	/* (2) composed with the engine: the previous record has been sent:
	 * sendrec_ack -> make_ready_out */
	make_ready_out(&rc);

	const size_t a = rc.oxa, b = rc.oxb;
	CHECK(a <= b && rc.oxc == a, "oxa <= oxb, oxc == oxa");
	const size_t n = b - a;
	CHECK(n >= 1, "some plaintext can be accepted");
	CHECK(n <= 16384 && n <= F, "plaintext area <= min(16384, max_frag_len)");

	CHECK(a >= pre, "room before the plaintext for header / explicit IV or nonce / split record");

	size_t len = ND_SIZE();
	ASSUME(len <= n);
	size_t end = a + len + TRAIL(len);
#if MODE == 1 && !EXPL
	if (len >= 2) {
		size_t end2 = a + 1 + (len - 1) + TRAIL(len - 1);	/* second record of the split */
		CHECK(end2 <= OL, "1/n-1 split: second record ends inside the output buffer");
	}
#endif
	CHECK(end >= a && end <= OL, "record with any admitted plaintext length ends inside the output buffer");
	if (len == n) { WITNESS_POINT("full plaintext area"); }
	if (F == 512) { WITNESS_POINT("smallest fragment length"); }
	if (F == 16384 && shared) { WITNESS_POINT("largest fragment length, shared buffer"); }

	/* C16.c: a (re)negotiated fragment length arrives while the record is empty */
	unsigned m2 = ND_U16();
	ASSUME(is_std(m2));
	br_ssl_engine_new_max_frag_len(&rc, m2);
	CHECK(rc.oxb <= b, "new_max_frag_len never grows oxb");
	CHECK(rc.oxa == a && rc.oxc == a && rc.oxa < rc.oxb, "new_max_frag_len keeps oxa, oxc and oxa < oxb");
	CHECK(rc.oxb - rc.oxa <= m2, "fresh record capped at the new fragment length");
	if (m2 < n) { WITNESS_POINT("fragment length reduced"); }
	return 0;
}
