/*
 * Dual-mode harness support (DESIGN.md 1.4).
 *
 *  - under CBMC: ND_*() are free variables, ASSUME/CHECK map to
 *    __CPROVER_assume/__CPROVER_assert;
 *  - with -DWITNESS: CHECK is a no-op and WITNESS_POINT(msg) becomes
 *    assert(0): the driver requires every witness point to be reachable;
 *  - with -DVLOG: every ND_*() value passes through the identity function
 *    vin() so that the driver can read the inputs back from a counterexample
 *    trace (actual parameters of the vin calls, in order);
 *  - with -DNATIVE_REPLAY: ND_*() read successive values from the replay
 *    file named by $VERIF_REPLAY, ASSUME exits 3 when false, CHECK prints
 *    and exits 1 when false (the harness is then linked against the real,
 *    natively compiled sources with ASan/UBSan).
 */
#ifndef VERIF_COMMON_H
#define VERIF_COMMON_H
#include <stdint.h>
#include <stddef.h>

#ifdef NATIVE_REPLAY
#include <stdio.h>
#include <string.h>
#include <stdlib.h>
uint64_t vr_next(void);
int vr_fill(void);   /* byte used for "memory the harness leaves unconstrained": 0, or $VERIF_FILL on the driver's retries */
#define NATIVE_FILL(p, n) memset((p), vr_fill(), (n))
#define VIN(x)  (vr_next())
#define ND_U8()   ((uint8_t)vr_next())
#define ND_U16()  ((uint16_t)vr_next())
#define ND_U32()  ((uint32_t)vr_next())
#define ND_U64()  ((uint64_t)vr_next())
#define ND_SIZE() ((size_t)vr_next())
#define ND_INT()  ((int)(int64_t)vr_next())
#define ASSUME(c) do { if (!(c)) { printf("REPLAY-ASSUME-FALSE: %s (%s:%d)\n", #c, __FILE__, __LINE__); exit(3); } } while (0)
#define CHECK(c, msg) do { if (!(c)) { printf("REPLAY-FAIL: %s (%s:%d)\n", msg, __FILE__, __LINE__); fflush(stdout); exit(1); } } while (0)
#define WITNESS_POINT(msg) do { } while (0)
#define FINISH() do { fflush(stdout); exit(0); } while (0)
#define __CPROVER_assume(c) ASSUME(c)
#define __CPROVER_assert(c, msg) CHECK(c, msg)
#else
uint8_t nondet_u8(void);
uint16_t nondet_u16(void);
uint32_t nondet_u32(void);
uint64_t nondet_u64(void);
size_t nondet_size(void);
int nondet_int(void);
#ifdef VLOG
/* vin() is an identity function with a body (harness/vlog.c): the driver reads
   the nondet values back from the counterexample trace as the actual
   parameters of its calls, in call order (no logging array: a symbolic log
   index made the trace query of the engine harness run out of memory) */
uint64_t vin(uint64_t v);
#define VIN(x) vin((uint64_t)(x))
#else
#define VIN(x) (x)
#endif
#define ND_U8()   ((uint8_t)VIN(nondet_u8()))
#define ND_U16()  ((uint16_t)VIN(nondet_u16()))
#define ND_U32()  ((uint32_t)VIN(nondet_u32()))
#define ND_U64()  ((uint64_t)VIN(nondet_u64()))
#define ND_SIZE() ((size_t)VIN(nondet_size()))
#define ND_INT()  ((int)(int64_t)VIN((int64_t)nondet_int()))
#define ASSUME(c) __CPROVER_assume(c)
#ifdef WITNESS
#define CHECK(c, msg) do { (void)(c); } while (0)
#define WITNESS_POINT(msg) __CPROVER_assert(0, "WITNESS: " msg)
#else
#define CHECK(c, msg) __CPROVER_assert(c, msg)
#define WITNESS_POINT(msg) do { } while (0)
#endif
/* terminal path: never merge a finished path with a running one */
#define FINISH() __CPROVER_assume(0)
#endif

/* fill a byte array with symbolic bytes (n must be concrete) */
#define ND_BYTES(buf, n) do { for (size_t nd_i_ = 0; nd_i_ < (size_t)(n); nd_i_++) ((unsigned char *)(buf))[nd_i_] = ND_U8(); } while (0)

#endif
