/*
 * C08 (a): wrapper translation unit around the static inline constant-time
 * primitives of src/inner.h (compiled by clang to IR for the check, and by gcc
 * as the "real" side of the translation validation).  Not a copy of the code:
 * the primitives come from the current inner.h.
 */
#include "inner.h"

void
c08w_all(const uint32_t *in, uint32_t *out)
{
	uint32_t x = in[0], y = in[1], c = in[2] & 1;

	out[0] = NOT(c);
	out[1] = MUX(c, x, y);
	out[2] = EQ(x, y);
	out[3] = NEQ(x, y);
	out[4] = GT(x, y);
	out[5] = GE(x, y);
	out[6] = LT(x, y);
	out[7] = LE(x, y);
	out[8] = (uint32_t)CMP(x, y);
	out[9] = EQ0((int32_t)x);
	out[10] = GT0((int32_t)x);
	out[11] = GE0((int32_t)x);
	out[12] = LT0((int32_t)x);
	out[13] = LE0((int32_t)x);
	out[14] = BIT_LENGTH(x);
	out[15] = MIN(x, y);
	out[16] = MAX(x, y);
	out[17] = EQ(x, x) + EQ0(0) + GT(y, y);
}

/* negative control for the encoder (checks/C08.py, control entries): early-exit compare */
uint32_t
c08w_tagcmp(const void *a, const void *b, size_t n)
{
	return (uint32_t)(memcmp(a, b, n) == 0);
}
