/*
 * C01.a: key-block direction symmetry.  Unit: the real src/ssl/ssl_engine.c
 * (br_ssl_engine_switch_{cbc,gcm,ccm,chapol}_{in,out}, compute_key_block,
 * br_ssl_engine_get_PRF), linked.
 *
 * Two engine contexts (a client and a server) are built directly and share
 * the session secrets (master secret, randoms, version).  Seams:
 *   - cc->prf10 / prf_sha256 / prf_sha384: contract stubs that CHECK the
 *     label, the secret and the seed order and copy bytes from ONE global
 *     symbolic key block KB[] (same PRF input => same output on both sides);
 *   - cc->i{cbc,gcm,ccm,chapol}_{in,out}->init: recording stubs.
 * Oracle: RFC 5246 6.3 key-block layout
 *     client_write_MAC_key | server_write_MAC_key | client_write_key |
 *     server_write_key | client_write_IV | server_write_IV
 * written here as offsets, and the symmetry law "what X's out-init receives
 * equals what the peer's in-init receives".
 *
 * MODE 0 cbc, 1 gcm, 2 ccm, 3 chapol.  Public sizes are concrete: VERSION
 * (0x0301..0x0303), MACID (md5 1, sha1 2, sha256 4, sha384 5) and BLK (8/16)
 * per query; cipher_key_len in {16,24,32} and tag_len in {8,16} are
 * enumerated by a concrete loop inside one run.  Symbolic: prf_id, all
 * key-block bytes, master secret, randoms.  (With symbolic version/mac/key
 * length every key-block offset becomes symbolic: 3.7 M variables, no
 * verdict in minutes; if VERSION/MACID/BLK are not defined they are drawn
 * symbolically all the same, for experiments.)
 */
#include "common.h"
#include "inner.h"

#ifndef MODE
#define MODE 0
#endif

#define KBMAX 192
static unsigned char KB[KBMAX], MS[48], CRND[32], SRND[32];

/* ---- PRF seam -------------------------------------------------------------- */
static int prf_calls, prf_which;
static size_t prf_len;
static const unsigned char *prf_dst;
static const br_ssl_engine_context *cur_cc;

static void prf_common(int which, void *dst, size_t len, const void *secret, size_t secret_len,
	const char *label, size_t seed_num, const br_tls_prf_seed_chunk *seed)
{
	static const char want[] = "key expansion";
	int ok = 1;
	prf_calls++;
	prf_which = which;
	prf_len = len;
	prf_dst = dst;
	for (size_t i = 0; i < sizeof want; i++) if (label[i] != want[i]) ok = 0;
	CHECK(ok, "PRF label is \"key expansion\"");
	/* both contexts hold the same master secret / randoms (setup()); the PRF
	 * input is identified by address, which is cheaper than comparing bytes */
	CHECK(secret_len == 48 && secret == (const void *)cur_cc->session.master_secret, "PRF secret is the 48-byte master secret of this engine");
	CHECK(seed_num == 2 && seed[0].len == 32 && seed[1].len == 32, "PRF seed is two 32-byte chunks");
	CHECK(seed[0].data == (const void *)cur_cc->server_random && seed[1].data == (const void *)cur_cc->client_random, "PRF seed is server_random || client_random");
	CHECK(len <= KBMAX, "key block request fits the symbolic key block");
	if (len > KBMAX) FINISH();
	for (size_t i = 0; i < len; i++) ((unsigned char *)dst)[i] = KB[i];
}
static void prf_tls10(void *dst, size_t len, const void *secret, size_t secret_len,
	const char *label, size_t seed_num, const br_tls_prf_seed_chunk *seed)
{ prf_common(10, dst, len, secret, secret_len, label, seed_num, seed); }
static void prf_s256(void *dst, size_t len, const void *secret, size_t secret_len,
	const char *label, size_t seed_num, const br_tls_prf_seed_chunk *seed)
{ prf_common(256, dst, len, secret, secret_len, label, seed_num, seed); }
static void prf_s384(void *dst, size_t len, const void *secret, size_t secret_len,
	const char *label, size_t seed_num, const br_tls_prf_seed_chunk *seed)
{ prf_common(384, dst, len, secret, secret_len, label, seed_num, seed); }

/* ---- recording init seams ---------------------------------------------------- */
typedef struct {
	int calls;
	const void *ctx, *bc_impl, *dig, *aux1, *aux2;
	int key_ok, mkey_ok, iv_ok;		/* the bytes received are KB[off, off+len) */
	size_t key_len, mkey_len, mac_out_len, iv_len, tag_len;
	size_t key_off, mkey_off, iv_off;	/* offsets into the PRF output */
	int iv_null;
	size_t kb_len;				/* PRF output length at the time */
} rec_t;
static rec_t R[4];	/* 0 client out, 1 server in, 2 server out, 3 client in */
static rec_t *cur;

/* the init seam receives `len` bytes at `src`: record where they lie in the
 * PRF output and whether they are (still) the key-block bytes KB[off, off+len)
 * - compared here, at call time, instead of copied and compared later */
static void rec_bytes(int *ok, size_t cap, const void *src, size_t len, size_t *off)
{
	CHECK(len <= cap, "recorded length within the documented maximum");
	*off = (size_t)((const unsigned char *)src - prf_dst);
	*ok = 0;
	if (len > cap || *off > KBMAX || *off + len > KBMAX) return;
	int same = 1;
	for (size_t i = 0; i < len; i++) if (((const unsigned char *)src)[i] != KB[*off + i]) same = 0;
	*ok = same;
}
static void rec_cbc(const void *ctx, const void *bc_impl, unsigned blk, const void *key, size_t key_len,
	const br_hash_class *dig, const void *mkey, size_t mkey_len, size_t mac_out_len, const void *iv)
{
	cur->calls++; cur->ctx = ctx; cur->bc_impl = bc_impl; cur->dig = dig; cur->kb_len = prf_len;
	cur->key_len = key_len; cur->mkey_len = mkey_len; cur->mac_out_len = mac_out_len;
	rec_bytes(&cur->key_ok, 32, key, key_len, &cur->key_off);
	rec_bytes(&cur->mkey_ok, 48, mkey, mkey_len, &cur->mkey_off);
	cur->iv_null = (iv == NULL);
	cur->iv_len = 0;
	if (iv != NULL) { cur->iv_len = blk; rec_bytes(&cur->iv_ok, 16, iv, blk, &cur->iv_off); }
}
static void rec_in_cbc_init(const br_sslrec_in_cbc_class **ctx, const br_block_cbcdec_class *bc_impl,
	const void *key, size_t key_len, const br_hash_class *dig,
	const void *mkey, size_t mkey_len, size_t mac_out_len, const void *iv)
{ rec_cbc(ctx, bc_impl, bc_impl->block_size, key, key_len, dig, mkey, mkey_len, mac_out_len, iv); }
static void rec_out_cbc_init(const br_sslrec_out_cbc_class **ctx, const br_block_cbcenc_class *bc_impl,
	const void *key, size_t key_len, const br_hash_class *dig,
	const void *mkey, size_t mkey_len, size_t mac_out_len, const void *iv)
{ rec_cbc(ctx, bc_impl, bc_impl->block_size, key, key_len, dig, mkey, mkey_len, mac_out_len, iv); }

static void rec_aead(const void *ctx, const void *bc_impl, const void *key, size_t key_len,
	const void *aux1, const void *aux2, const void *iv, size_t iv_len, size_t tag_len)
{
	cur->calls++; cur->ctx = ctx; cur->bc_impl = bc_impl; cur->aux1 = aux1; cur->aux2 = aux2;
	cur->kb_len = prf_len; cur->key_len = key_len; cur->tag_len = tag_len;
	rec_bytes(&cur->key_ok, 32, key, key_len, &cur->key_off);
	cur->iv_null = (iv == NULL);
	cur->iv_len = iv_len;
	if (iv != NULL) rec_bytes(&cur->iv_ok, 16, iv, iv_len, &cur->iv_off);
}
static void rec_in_gcm_init(const br_sslrec_in_gcm_class **ctx, const br_block_ctr_class *bc_impl,
	const void *key, size_t key_len, br_ghash gh, const void *iv)
{ rec_aead(ctx, bc_impl, key, key_len, (const void *)gh, NULL, iv, 4, 0); }
static void rec_out_gcm_init(const br_sslrec_out_gcm_class **ctx, const br_block_ctr_class *bc_impl,
	const void *key, size_t key_len, br_ghash gh, const void *iv)
{ rec_aead(ctx, bc_impl, key, key_len, (const void *)gh, NULL, iv, 4, 0); }
static void rec_in_ccm_init(const br_sslrec_in_ccm_class **ctx, const br_block_ctrcbc_class *bc_impl,
	const void *key, size_t key_len, const void *iv, size_t tag_len)
{ rec_aead(ctx, bc_impl, key, key_len, NULL, NULL, iv, 4, tag_len); }
static void rec_out_ccm_init(const br_sslrec_out_ccm_class **ctx, const br_block_ctrcbc_class *bc_impl,
	const void *key, size_t key_len, const void *iv, size_t tag_len)
{ rec_aead(ctx, bc_impl, key, key_len, NULL, NULL, iv, 4, tag_len); }
static void rec_in_chapol_init(const br_sslrec_in_chapol_class **ctx, br_chacha20_run ichacha,
	br_poly1305_run ipoly, const void *key, const void *iv)
{ rec_aead(ctx, NULL, key, 32, (const void *)ichacha, (const void *)ipoly, iv, 12, 0); }
static void rec_out_chapol_init(const br_sslrec_out_chapol_class **ctx, br_chacha20_run ichacha,
	br_poly1305_run ipoly, const void *key, const void *iv)
{ rec_aead(ctx, NULL, key, 32, (const void *)ichacha, (const void *)ipoly, iv, 12, 0); }

static const br_sslrec_in_cbc_class rec_in_cbc = { { 0, 0, 0 }, rec_in_cbc_init };
static const br_sslrec_out_cbc_class rec_out_cbc = { { 0, 0, 0 }, rec_out_cbc_init };
static const br_sslrec_in_gcm_class rec_in_gcm = { { 0, 0, 0 }, rec_in_gcm_init };
static const br_sslrec_out_gcm_class rec_out_gcm = { { 0, 0, 0 }, rec_out_gcm_init };
static const br_sslrec_in_ccm_class rec_in_ccm = { { 0, 0, 0 }, rec_in_ccm_init };
static const br_sslrec_out_ccm_class rec_out_ccm = { { 0, 0, 0 }, rec_out_ccm_init };
static const br_sslrec_in_chapol_class rec_in_chapol = { { 0, 0, 0 }, rec_in_chapol_init };
static const br_sslrec_out_chapol_class rec_out_chapol = { { 0, 0, 0 }, rec_out_chapol_init };

/* block-cipher classes: only block_size is read by the unit */
static const br_block_cbcenc_class enc8 = { 0, 8, 3, 0, 0 }, enc16 = { 0, 16, 4, 0, 0 };
static const br_block_cbcdec_class dec8 = { 0, 8, 3, 0, 0 }, dec16 = { 0, 16, 4, 0, 0 };
static const br_block_ctr_class ctr16 = { 0, 16, 4, 0, 0 };
static const br_block_ctrcbc_class ctrcbc16 = { 0, 16, 4, 0, 0, 0, 0, 0 };
static void gh_dummy(void *y, const void *h, const void *data, size_t len) { (void)y; (void)h; (void)data; (void)len; }
static uint32_t chacha_dummy(const void *key, const void *iv, uint32_t cc, void *data, size_t len)
{ (void)key; (void)iv; (void)data; (void)len; return cc; }
static void poly_dummy(const void *key, const void *iv, void *data, size_t len, const void *aad, size_t aad_len,
	void *tag, br_chacha20_run ichacha, int encrypt)
{ (void)key; (void)iv; (void)data; (void)len; (void)aad; (void)aad_len; (void)tag; (void)ichacha; (void)encrypt; }

static br_ssl_engine_context cli, srv;

static void setup(br_ssl_engine_context *cc, unsigned version)
{
	cc->session.version = (uint16_t)version;
	for (int i = 0; i < 48; i++) cc->session.master_secret[i] = MS[i];
	for (int i = 0; i < 32; i++) { cc->client_random[i] = CRND[i]; cc->server_random[i] = SRND[i]; }
	br_ssl_engine_set_prf10(cc, &prf_tls10);
	br_ssl_engine_set_prf_sha256(cc, &prf_s256);
	br_ssl_engine_set_prf_sha384(cc, &prf_s384);
	br_ssl_engine_set_hash(cc, br_md5_ID, &br_md5_vtable);
	br_ssl_engine_set_hash(cc, br_sha1_ID, &br_sha1_vtable);
	br_ssl_engine_set_hash(cc, br_sha256_ID, &br_sha256_vtable);
	br_ssl_engine_set_hash(cc, br_sha384_ID, &br_sha384_vtable);
	cc->icbc_in = &rec_in_cbc; cc->icbc_out = &rec_out_cbc;
	cc->igcm_in = &rec_in_gcm; cc->igcm_out = &rec_out_gcm;
	cc->iccm_in = &rec_in_ccm; cc->iccm_out = &rec_out_ccm;
	cc->ichapol_in = &rec_in_chapol; cc->ichapol_out = &rec_out_chapol;
	cc->ighash = &gh_dummy; cc->ichacha = &chacha_dummy; cc->ipoly = &poly_dummy;
	cc->incrypt = 0;
}

static void pair_equal(const rec_t *o, const rec_t *i)
{
	CHECK(o->calls == 1 && i->calls == 1, "each switch calls its init seam exactly once");
	/* identical bytes: both are the same slice of the same symbolic key block */
	CHECK(o->key_len == i->key_len && o->key_ok && i->key_ok && o->key_off == i->key_off, "writer's cipher key == reader's cipher key (same key-block slice, bytes intact)");
#if MODE == 0
	CHECK(o->mkey_len == i->mkey_len && o->mac_out_len == i->mac_out_len && o->mkey_ok && i->mkey_ok && o->mkey_off == i->mkey_off, "writer's MAC key == reader's MAC key (same key-block slice, bytes intact)");
	CHECK(o->dig == i->dig, "same hash class for the MAC");
#endif
	CHECK(o->iv_null == i->iv_null && o->iv_len == i->iv_len && (o->iv_null || (o->iv_ok && i->iv_ok && o->iv_off == i->iv_off)), "writer's IV == reader's IV (same key-block slice, bytes intact)");
	CHECK(o->tag_len == i->tag_len && o->aux1 == i->aux1 && o->aux2 == i->aux2, "same tag length / auxiliary implementations");
	CHECK(o->kb_len == i->kb_len, "same key block length requested on both sides");
}

/* RFC 5246 6.3 layout for the party that WRITES with these keys */
static void rfc_layout(const rec_t *r, int writer_is_client, size_t m, size_t k, size_t ivl, int iv_expected)
{
	size_t w = writer_is_client ? 0 : 1;
	CHECK(r->kb_len == 2 * (m + k + ivl), "key block length is 2*(mac_key + enc_key + fixed_iv)");
	CHECK(r->key_len == k && r->key_off == 2 * m + w * k && r->key_ok, "cipher key is the RFC 5246 6.3 slice");
#if MODE == 0
	CHECK(r->mkey_len == m && r->mac_out_len == m && r->mkey_off == w * m && r->mkey_ok, "MAC key is the RFC 5246 6.3 slice");
#endif
	if (iv_expected) {
		CHECK(!r->iv_null && r->iv_len == ivl && r->iv_off == 2 * m + 2 * k + w * ivl && r->iv_ok, "IV is the RFC 5246 6.3 slice");
	} else {
		CHECK(r->iv_null, "TLS 1.1+ CBC: explicit per-record IV, init receives NULL");
	}
}

static unsigned version;
static int prf_id;

static void config(size_t klen, size_t tagl)
{
	for (int i = 0; i < 4; i++) { rec_t z = { 0 }; R[i] = z; }
	prf_calls = 0;
	cli.incrypt = 0;
	srv.incrypt = 0;
#if MODE == 0
#ifdef MACID
	int mac_id = MACID;
#else
	int mac_id = ND_U8();
	ASSUME(mac_id == br_md5_ID || mac_id == br_sha1_ID || mac_id == br_sha256_ID || mac_id == br_sha384_ID);
#endif
#ifdef BLK
	int big = (BLK == 16);
#else
	int big = ND_U8() & 1;
#endif
	const br_block_cbcenc_class *be = big ? &enc16 : &enc8;
	const br_block_cbcdec_class *bd = big ? &dec16 : &dec8;
	size_t blk = big ? 16 : 8;
	size_t m = mac_id == br_md5_ID ? 16 : mac_id == br_sha1_ID ? 20 : mac_id == br_sha256_ID ? 32 : 48;	/* RFC 5246 app. C */
	size_t ivl = version >= BR_TLS11 ? 0 : blk;
	const br_hash_class *dig = mac_id == br_md5_ID ? &br_md5_vtable : mac_id == br_sha1_ID ? &br_sha1_vtable
		: mac_id == br_sha256_ID ? &br_sha256_vtable : &br_sha384_vtable;
#define SW_OUT(cc, isc) br_ssl_engine_switch_cbc_out(cc, isc, prf_id, mac_id, be, klen)
#define SW_IN(cc, isc) br_ssl_engine_switch_cbc_in(cc, isc, prf_id, mac_id, bd, klen)
#define CTX_OUT(cc) ((const void *)&(cc)->out.cbc.vtable)
#define CTX_IN(cc) ((const void *)&(cc)->in.cbc.vtable)
	int iv_expected = version < BR_TLS11;
	(void)tagl;
#elif MODE == 1
	size_t m = 0, ivl = 4;
#define SW_OUT(cc, isc) br_ssl_engine_switch_gcm_out(cc, isc, prf_id, &ctr16, klen)
#define SW_IN(cc, isc) br_ssl_engine_switch_gcm_in(cc, isc, prf_id, &ctr16, klen)
#define CTX_OUT(cc) ((const void *)&(cc)->out.gcm.vtable.out)
#define CTX_IN(cc) ((const void *)&(cc)->in.gcm.vtable.in)
	int iv_expected = 1;
	(void)tagl;
#elif MODE == 2
	size_t m = 0, ivl = 4;
#define SW_OUT(cc, isc) br_ssl_engine_switch_ccm_out(cc, isc, prf_id, &ctrcbc16, klen, tagl)
#define SW_IN(cc, isc) br_ssl_engine_switch_ccm_in(cc, isc, prf_id, &ctrcbc16, klen, tagl)
#define CTX_OUT(cc) ((const void *)&(cc)->out.ccm.vtable.out)
#define CTX_IN(cc) ((const void *)&(cc)->in.ccm.vtable.in)
	int iv_expected = 1;
#else
	size_t m = 0, ivl = 12;
#define SW_OUT(cc, isc) br_ssl_engine_switch_chapol_out(cc, isc, prf_id)
#define SW_IN(cc, isc) br_ssl_engine_switch_chapol_in(cc, isc, prf_id)
#define CTX_OUT(cc) ((const void *)&(cc)->out.chapol.vtable.out)
#define CTX_IN(cc) ((const void *)&(cc)->in.chapol.vtable.in)
	int iv_expected = 1;
	(void)tagl;
#endif
	int want_prf = version >= BR_TLS12 ? (prf_id == br_sha384_ID ? 384 : 256) : 10;	/* RFC 5246 5 / RFC 4346 5 */
	/* client -> server direction */
	cur = &R[0]; cur_cc = &cli; SW_OUT(&cli, 1);
	CHECK(prf_calls == 1 && prf_which == want_prf, "client out: one PRF call, PRF chosen by version and suite");
	CHECK(cli.incrypt == 0, "switch_*_out does not turn on incoming encryption");
	cur = &R[1]; cur_cc = &srv; SW_IN(&srv, 0);
	CHECK(prf_calls == 2 && prf_which == want_prf, "server in: one PRF call, same PRF");
	CHECK(srv.incrypt == 1, "switch_*_in turns on incoming encryption");
	/* server -> client direction */
	cur = &R[2]; cur_cc = &srv; SW_OUT(&srv, 0);
	cur = &R[3]; cur_cc = &cli; SW_IN(&cli, 1);
	CHECK(prf_calls == 4 && cli.incrypt == 1, "client in turns on incoming encryption");
	{
		int ok = 1;
		for (int i = 0; i < 48; i++) if (cli.session.master_secret[i] != MS[i] || srv.session.master_secret[i] != MS[i]) ok = 0;
		for (int i = 0; i < 32; i++) if (cli.client_random[i] != CRND[i] || srv.client_random[i] != CRND[i]
			|| cli.server_random[i] != SRND[i] || srv.server_random[i] != SRND[i]) ok = 0;
		CHECK(ok, "session secrets and randoms untouched and equal on both sides");
	}

	CHECK(R[0].ctx == CTX_OUT(&cli) && R[1].ctx == CTX_IN(&srv) && R[2].ctx == CTX_OUT(&srv) && R[3].ctx == CTX_IN(&cli),
		"init is given the engine's own in/out record context");
	pair_equal(&R[0], &R[1]);
	pair_equal(&R[2], &R[3]);
	rfc_layout(&R[0], 1, m, klen, ivl, iv_expected);
	rfc_layout(&R[1], 1, m, klen, ivl, iv_expected);
	rfc_layout(&R[2], 0, m, klen, ivl, iv_expected);
	rfc_layout(&R[3], 0, m, klen, ivl, iv_expected);
#if MODE == 0
	CHECK(R[0].bc_impl == be && R[2].bc_impl == be && R[1].bc_impl == bd && R[3].bc_impl == bd, "block cipher class passed through");
	CHECK(R[0].dig == dig && R[3].dig == dig, "hash class of the MAC is the one registered for mac_id");
#elif MODE == 1
	CHECK(R[0].bc_impl == &ctr16 && R[3].bc_impl == &ctr16 && R[0].aux1 == (const void *)&gh_dummy, "CTR class and GHASH passed through");
#elif MODE == 2
	CHECK(R[0].bc_impl == &ctrcbc16 && R[3].bc_impl == &ctrcbc16 && R[0].tag_len == tagl && R[3].tag_len == tagl, "CTR+CBC-MAC class and tag length passed through");
#else
	CHECK(R[0].aux1 == (const void *)&chacha_dummy && R[0].aux2 == (const void *)&poly_dummy, "ChaCha20 / Poly1305 implementations passed through");
#endif
	/* the two directions of one endpoint use disjoint slices */
	{
		const rec_t *o = &R[0], *i = &R[3];
		CHECK(o->key_off + o->key_len <= i->key_off || i->key_off + i->key_len <= o->key_off, "client write key and client read key do not overlap");
#if MODE == 0
		CHECK(o->mkey_off + o->mkey_len <= i->mkey_off || i->mkey_off + i->mkey_len <= o->mkey_off, "client write MAC key and read MAC key do not overlap");
		CHECK(o->mkey_off + o->mkey_len <= o->key_off && i->mkey_off + i->mkey_len <= o->key_off, "MAC keys precede cipher keys");
#endif
		if (!o->iv_null && !i->iv_null) {
			CHECK(o->iv_off + o->iv_len <= i->iv_off || i->iv_off + i->iv_len <= o->iv_off, "client write IV and read IV do not overlap");
			CHECK(o->key_off + o->key_len <= o->iv_off && i->key_off + i->key_len <= o->iv_off, "cipher keys precede IVs");
		}
	}
}

int main(void)
{
	ND_BYTES(KB, KBMAX); ND_BYTES(MS, 48); ND_BYTES(CRND, 32); ND_BYTES(SRND, 32);
#ifdef VERSION
	version = VERSION;
#else
	version = ND_U16();
	ASSUME(version == BR_TLS10 || version == BR_TLS11 || version == BR_TLS12);
#endif
	prf_id = ND_U8();
	ASSUME(prf_id == br_sha256_ID || prf_id == br_sha384_ID || prf_id == 0);
	setup(&cli, version);
	setup(&srv, version);
#if MODE == 3
	config(32, 0);
#elif MODE == 2
#ifdef TAGLEN
	config(16, TAGLEN); config(24, TAGLEN); config(32, TAGLEN);
#else
	config(16, 16); config(24, 16); config(32, 16);
	config(16, 8); config(24, 8); config(32, 8);
#endif
#else
	config(16, 0); config(24, 0); config(32, 0);
#endif
#if !defined(VERSION) || VERSION == 0x0303
	if (version == BR_TLS12 && prf_id == br_sha384_ID) { WITNESS_POINT("TLS 1.2 / SHA-384 PRF configuration checked"); }
	if (version == BR_TLS12 && prf_id != br_sha384_ID) { WITNESS_POINT("TLS 1.2 / SHA-256 PRF configuration checked"); }
#endif
	WITNESS_POINT("all configurations checked");
	return 0;
}
