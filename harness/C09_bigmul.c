/*
 * C09: big-integer routines that multiply (real multiplier, MUL15/MUL31/MUL
 * as configured) at 1-2 words against a reference on an explicit integer.
 * -DW=15|31|32, -DBL=<announced bit length of the modulus / first operand>
 * (concrete per query), -DBL2=<second length> where two lengths exist.
 * Operand arrays have exactly the size the announced length requires.
 *
 * A reference with '%' makes the solver reason about a division circuit and
 * only finishes for moduli of a few bits.  Two division-free formulations are
 * used instead (both are re-statements of the documented result):
 *  - "x mod m" routines: the symbolic inputs are the modulus M, a quotient Q
 *    and a remainder R0 < M; the operand handed to the routine is Q*M + R0
 *    (every admissible operand is of that form exactly once) and the routine
 *    must return R0.
 *  - Montgomery routines: the reference is text-book REDC with the full-width
 *    inverse  minv = -1/M mod R  (R = 2^(W*words)), characterised by
 *    M*minv == -1 mod R:  REDC(P) = (P + ((P mod R)*minv mod R)*M) / R,
 *    minus M if >= M.  That REDC(P)*R == P mod M and REDC(P) < M is the
 *    text-book theorem; T_REDC_SELF decides it with '%' for small moduli.
 *
 *  T_MULADD      br_iXX_muladd_small: (x*2^W + z) mod m        [x < m, |m| == BL]
 *  T_MULACC      br_iXX_mulacc: d + a*b, header = BL + BL2
 *  T_MONTYMUL    br_iXX_montymul == REDC(x*y)                  [x,y < m, m odd]
 *  T_TMONT       br_iXX_to_monty: x*R mod m                    [x < m, |m| == BL]
 *  T_FMONT       br_iXX_from_monty == REDC(x)                  [x < m, m odd]
 *  T_REDUCE      br_iXX_reduce: a mod m, a of announced length BL2
 *  T_DECRED      br_iXX_decode_reduce: big-endian SRCLEN bytes mod m
 *  T_MODPOW      br_iXX_modpow: x^e mod m, e = one symbolic byte      ('%' reference)
 *  T_MODPOW_OPT  br_i15/i31_modpow_opt with tmp[] of exactly TWLEN words:
 *                returns 0 iff TWLEN < 2*roundup2(words+1), else x^e mod m
 *  T_MODDIV      br_i15/i31_moddiv: returns gcd(y,m)==1, and then r*y == x mod m
 *  T_REDC_SELF   the REDC reference itself against '%' (no code under test)
 * -DUSE_MOD=1 selects the plain '%' reference for the first group (small BL).
 * m0i is characterised by m0i*m[1] == -1 mod 2^W (what br_iXX_ninvNN returns
 * is decided separately by the T_NINV queries).
 */
#include "C09_ref.h"

#ifndef BL
#define BL 15
#endif
#ifndef BL2
#define BL2 BL
#endif
#define N1 NW(BL)
#define N2 NW(BL2)
#define RSH (W * N1)	/* log2 of the Montgomery factor R */

/* narrowest reference type that holds every intermediate of the reference
   (REDC needs 2*RSH+1 bits, a product of operands BL+BL2) */
#if (2 * RSH + 1) <= 32 && (BL + BL2) <= 32 && !defined(REF64) && !defined(REF128)
typedef uint32_t rt;
#define ND_RT() ((rt)ND_U32())
#elif (2 * RSH + 1) <= 64 && (BL + BL2) <= 64 && !defined(REF128)
typedef uint64_t rt;
#define ND_RT() ((rt)ND_U64())
#else
typedef u128 rt;
#define ND_RT() (((rt)ND_U64() << 64) | ND_U64())
#endif

#define RMASK ((((rt)1 << (RSH - 1)) << 1) - 1)

/* store v as an integer of announced bit length bl (v < 2^bl is the caller's business) */
static void
put(word_t *x, unsigned bl, rt v)
{
	x[0] = (word_t)enc_bl(bl);
	for (unsigned i = 1; i <= NW(bl); i++) {
		x[i] = (word_t)(v & WMASK);
		v = (W * NW(bl) > W) ? (v >> W) : 0;
	}
}

/* symbolic value below 2^bits */
static rt
nd_bits(unsigned bits)
{
	rt v = ND_RT();
	if (bits < 8 * sizeof(rt)) v &= (((rt)1 << bits) - 1);
	return v;
}

/* minv = -1/M mod R, the unique such value (M odd): characterised, not computed */
static rt
mk_minv(rt M)
{
	rt v = ND_RT() & RMASK;
	ASSUME(((M * v + 1) & RMASK) == 0);
	return v;
}

/* text-book Montgomery reduction of P < M*R */
static rt
redc(rt P, rt M, rt minv)
{
#if RSH <= 32
	/* only the low RSH <= 32 bits of the product are kept: a 32-bit multiplication yields them */
	rt k = (rt)((uint32_t)(P & RMASK) * (uint32_t)minv) & RMASK;
#else
	rt k = ((P & RMASK) * minv) & RMASK;
#endif
	rt T = (P + k * M) >> RSH;
	return T >= M ? T - M : T;
}

/* m0i = -1/m[1] mod 2^W: the unique word with m0i*m[1] == -1 mod 2^W (m odd).
   -DREAL_NINV=1 uses the real br_iXX_ninvNN instead. */
static uint32_t
mk_m0i(uint32_t m1)
{
#ifdef REAL_NINV
	return NINV((word_t)m1);
#else
	uint32_t v = ND_WORD() & WMASK;
	ASSUME((((uint64_t)v * m1 + 1) & WMASK) == 0);
	return v;
#endif
}

static rt
ref_modpow(rt X, unsigned e, rt M)
{
	rt r = 1 % M;
	for (int i = 7; i >= 0; i--) {
		r = (r * r) % M;
		if ((e >> i) & 1) r = (r * X) % M;
	}
	return r;
}

int main(void)
{
#if defined(T_MULADD)
	word_t m[N1 + 1], x[N1 + 1];
	mk(m, BL, 1, 0);
#ifdef MTOPBITS
	/* bounded claim: only the MTOPBITS low bits of the top word of m are free below its top bit */
	m[N1] &= (word_t)(((uint32_t)1 << ((BL - 1) % W)) | (((uint32_t)1 << MTOPBITS) - 1));
#endif
#ifdef MLOWBITS
	/* bounded claim: only the MLOWBITS low bits of the low word of m are free (rest 0) */
	m[1] &= (1u << MLOWBITS) - 1;
#if N1 == 1
#error "MLOWBITS is for multi-word moduli"
#endif
#endif
	rt M = (rt)val(m, N1);
#ifdef USE_MOD
	mk(x, BL, 0, 0);
	rt X = (rt)val(x, N1);
	ASSUME(X < M);
	uint32_t z = ND_WORD() & WMASK;
	rt R0 = ((X << W) + z) % M;
#else
	/* x*2^W + z = Q*M + R0 with Q < 2^W, R0 < M  <=>  x < M, z < 2^W */
#if defined(QBITS) && defined(QHIGH)
	/* bounded claim: quotient within 2^QBITS of its maximum 2^W - 1 (operand close to the modulus: the
	   "top words equal" branch of the estimate); N = (2^W - 1 - q')*M + R0 written without a wide product */
	rt Qd = nd_bits(QBITS), R0 = nd_bits(BL);
	ASSUME(R0 < M);
	rt N = (M << W) - (Qd + 1) * M + R0;
#else
#ifdef QBITS
	rt Q = nd_bits(QBITS), R0 = nd_bits(BL);	/* bounded claim: quotient below 2^QBITS */
#else
	rt Q = nd_bits(W), R0 = nd_bits(BL);
#endif
	ASSUME(R0 < M);
	rt N = Q * M + R0;
#endif
	uint32_t z = (uint32_t)(N & WMASK);
	put(x, BL, N >> W);
#endif
	FN(muladd_small)(x, (word_t)z, m);
	CHECK((rt)val(x, N1) == R0, "muladd_small: (x*2^W + z) mod m");
	CHECK(x[0] == m[0] && words_ok(x, N1), "muladd_small: header and word range");
#elif defined(T_MULACC)
	word_t a[N1 + 1], b[N2 + 1], d[N1 + N2 + 1];
	mk(a, BL, 0, 0);
	mk(b, BL2, 0, 0);
	mk(d, BL, 0, 0);
	for (unsigned i = N1 + 1; i <= N1 + N2; i++) d[i] = (word_t)ND_WORD();	/* "uninitialised" upper words */
	u128 A = val(a, N1), B = val(b, N2), D = val(d, N1);
	FN(mulacc)(d, a, b);
	CHECK(val(d, N1 + N2) == D + A * B, "mulacc: d + a*b");
	CHECK(dec_bl(d[0]) == BL + BL2, "mulacc: announced length is the sum");
#if W != 32
	CHECK((d[0] & ((1u << HS) - 1)) <= W, "mulacc: header low part <= W");
#endif
	CHECK(words_ok(d, N1 + N2), "mulacc: word range");
#elif defined(T_MONTYMUL)
	word_t m[N1 + 1], x[N1 + 1], y[N1 + 1], d[N1 + 1];
	mk(m, BL, 0, 1);
	mk(x, BL, 0, 0);
	mk(y, BL, 0, 0);
	rt M = (rt)val(m, N1), X = (rt)val(x, N1), Y = (rt)val(y, N1);
	ASSUME(X < M && Y < M);
	for (unsigned i = 0; i <= N1; i++) d[i] = (word_t)ND_WORD();
#ifdef USE_MOD
	uint32_t m0i = mk_m0i(m[1]);
	FN(montymul)(d, x, y, m, (word_t)m0i);
	rt D = (rt)val(d, N1);
	CHECK(D < M, "montymul: result < m");
	CHECK((D << RSH) % M == (X * Y) % M, "montymul: d*R == x*y mod m");
#else
	rt minv = mk_minv(M);
	uint32_t m0i = (uint32_t)(minv & WMASK);	/* == -1/m[1] mod 2^W */
	FN(montymul)(d, x, y, m, (word_t)m0i);
	CHECK((rt)val(d, N1) == redc(X * Y, M, minv), "montymul == REDC(x*y)");
#endif
	CHECK(d[0] == m[0] && words_ok(d, N1), "montymul: header and word range");
#ifdef ALIAS_XY
	FN(montymul)(d, x, x, m, (word_t)m0i);
	CHECK((rt)val(d, N1) == redc(X * X, M, minv), "montymul(d, x, x) == REDC(x*x)");
#endif
#elif defined(T_TMONT)
	word_t m[N1 + 1], x[N1 + 1];
	mk(m, BL, 1, 0);
	rt M = (rt)val(m, N1);
#ifdef USE_MOD
	mk(x, BL, 0, 0);
	rt X = (rt)val(x, N1);
	ASSUME(X < M);
	rt R0 = (X << RSH) % M;
#else
	/* x*R = Q*M + R0, Q < R, R0 < M, low RSH bits zero  <=>  x < M */
	rt Q = nd_bits(RSH), R0 = nd_bits(BL);
	ASSUME(R0 < M);
	rt N = Q * M + R0;
	ASSUME((N & RMASK) == 0);
	put(x, BL, N >> RSH);
#endif
	FN(to_monty)(x, m);
	CHECK((rt)val(x, N1) == R0, "to_monty: x*R mod m");
	CHECK(x[0] == m[0] && words_ok(x, N1), "to_monty: header and word range");
#elif defined(T_FMONT)
	word_t m[N1 + 1], x[N1 + 1];
	mk(m, BL, 0, 1);
	mk(x, BL, 0, 0);
	rt M = (rt)val(m, N1), X = (rt)val(x, N1);
	ASSUME(X < M);
#ifdef USE_MOD
	uint32_t m0i = mk_m0i(m[1]);
	FN(from_monty)(x, m, (word_t)m0i);
	rt D = (rt)val(x, N1);
	CHECK(D < M, "from_monty: result < m");
	CHECK((D << RSH) % M == X, "from_monty: r*R == x mod m");
#else
	rt minv = mk_minv(M);
	FN(from_monty)(x, m, (word_t)(minv & WMASK));
	CHECK((rt)val(x, N1) == redc(X, M, minv), "from_monty == REDC(x)");
#endif
	CHECK(x[0] == m[0] && words_ok(x, N1), "from_monty: header and word range");
#elif defined(T_REDUCE)
	word_t m[N1 + 1], a[N2 + 1], x[N1 + 1];
	mk(m, BL, 1, 0);
	rt M = (rt)val(m, N1);
#ifdef USE_MOD
	mk(a, BL2, 0, 0);
	rt R0 = (rt)val(a, N2) % M;
#else
	/* a = Q*M + R0 < 2^BL2 */
	rt Q = nd_bits(BL2 >= BL ? BL2 - BL + 1 : 0), R0 = nd_bits(BL);
	ASSUME(R0 < M);
	rt A = Q * M + R0;
	ASSUME(A < ((rt)1 << BL2));
	put(a, BL2, A);
#endif
	for (unsigned i = 0; i <= N1; i++) x[i] = (word_t)ND_WORD();
	FN(reduce)(x, a, m);
	CHECK((rt)val(x, N1) == R0, "reduce: a mod m");
	CHECK(x[0] == m[0] && words_ok(x, N1), "reduce: header and word range");
#elif defined(T_DECRED)
#ifndef SRCLEN
#define SRCLEN 4
#endif
	word_t m[N1 + 1], x[N1 + 1];
	unsigned char src[SRCLEN + 1];
	mk(m, BL, 1, 0);
	rt M = (rt)val(m, N1);
#ifdef USE_MOD
	ND_BYTES(src, SRCLEN);
	rt R0 = (rt)(be_val(src, SRCLEN) % M);
#else
	/* value = Q*M + R0 < 2^(8*SRCLEN) */
	rt Q = nd_bits(8 * SRCLEN >= BL ? 8 * SRCLEN - BL + 1 : 0), R0 = nd_bits(BL);
	ASSUME(R0 < M);
	rt V = Q * M + R0;
	ASSUME(8 * SRCLEN >= 8 * sizeof(rt) || V < ((rt)1 << (8 * SRCLEN % (8 * sizeof(rt)))));
	for (unsigned j = 0; j < SRCLEN; j++) src[SRCLEN - 1 - j] = (unsigned char)(j < sizeof(rt) ? (V >> (8 * j)) : 0);
#endif
	for (unsigned i = 0; i <= N1; i++) x[i] = (word_t)ND_WORD();
	FN(decode_reduce)(x, src, SRCLEN, m);
	CHECK((rt)val(x, N1) == R0, "decode_reduce: value mod m");
	CHECK(x[0] == m[0] && words_ok(x, N1), "decode_reduce: header and word range");
#elif defined(T_MODPOW)
	word_t m[N1 + 1], x[N1 + 1], t1[N1 + 1], t2[N1 + 1];
	unsigned char e[1];
	mk(m, BL, 1, 1);
	mk(x, BL, 0, 0);
	rt M = (rt)val(m, N1), X = (rt)val(x, N1);
	ASSUME(X < M);
	e[0] = ND_U8();
	uint32_t m0i = mk_m0i(m[1]);
	for (unsigned i = 0; i <= N1; i++) { t1[i] = (word_t)ND_WORD(); t2[i] = (word_t)ND_WORD(); }
	FN(modpow)(x, e, 1, m, (word_t)m0i, t1, t2);
	CHECK((rt)val(x, N1) == ref_modpow(X, e[0], M), "modpow: x^e mod m");
	CHECK(x[0] == m[0] && words_ok(x, N1), "modpow: header and word range");
#elif defined(T_MODPOW_OPT)
#ifndef TWLEN
#define TWLEN 4
#endif
#ifndef ELEN
#define ELEN 1	/* exponent bytes: 1, or 0 (empty exponent: x^0; used where only acceptance and memory safety are decided) */
#endif
	word_t m[N1 + 1], x[N1 + 1], tmp[TWLEN + 1];	/* tmp[TWLEN] is a guard, never to be touched */
	unsigned char e[1];
	mk(m, BL, 1, 1);
	mk(x, BL, 0, 0);
	rt M = (rt)val(m, N1), X = (rt)val(x, N1);
	ASSUME(X < M);
	e[0] = ND_U8();
	uint32_t m0i = mk_m0i(m[1]);
	for (unsigned i = 0; i <= TWLEN; i++) tmp[i] = (word_t)ND_WORD();
	word_t guard = tmp[TWLEN];
	uint32_t r = FN(modpow_opt)(x, e, ELEN, m, (word_t)m0i, tmp, TWLEN);
	unsigned mw = N1 + 1;
	/* documented: needs two temporaries of the size of m (header included);
	   the implementation additionally rounds that size up to an even word count */
	unsigned need = 2 * (mw + (mw & 1));
	CHECK(r == (uint32_t)(TWLEN >= need), "modpow_opt: returns 0 iff tmp is too short");
	CHECK(!(TWLEN < 2 * mw) || r == 0, "modpow_opt: documented lower bound on twlen is enforced");
	CHECK(tmp[TWLEN] == guard, "modpow_opt: tmp[twlen] untouched");
#if ELEN == 1
	if (r) {
		CHECK((rt)val(x, N1) == ref_modpow(X, e[0], M), "modpow_opt: x^e mod m");
		CHECK(x[0] == m[0] && words_ok(x, N1), "modpow_opt: header and word range");
	}
#endif
#elif defined(T_MODDIV)
	word_t m[N1 + 1], x[N1 + 1], y[N1 + 1], t[3 * (N1 + 1)];
	mk(m, BL, 0, 1);
	mk(x, BL, 0, 0);
	mk(y, BL, 0, 0);
	rt M = (rt)val(m, N1), X = (rt)val(x, N1), Y = (rt)val(y, N1);
	ASSUME(X < M && Y < M);
	uint32_t m0i = mk_m0i(m[1]);
	for (unsigned i = 0; i < 3 * (N1 + 1); i++) t[i] = (word_t)ND_WORD();
	uint32_t r = FN(moddiv)(x, y, m, (word_t)m0i, t);
	/* binary gcd of (Y, M), M odd: at most 2*BL+1 halving/subtract steps */
	rt ga = Y, gb = M;
	for (unsigned i = 0; i < 2 * BL + 2; i++) {
		if (ga != 0) {
			if ((ga & 1) == 0) ga >>= 1;
			else { if (ga < gb) { rt s = ga; ga = gb; gb = s; } ga = (ga - gb) >> 1; }
		}
	}
	CHECK(ga == 0, "reference gcd terminated");
	CHECK(r == (uint32_t)(gb == 1), "moddiv: returns 1 iff y is invertible mod m");
	if (gb == 1) {
		rt D = (rt)val(x, N1);
		CHECK(D < M, "moddiv: result < m");
		CHECK((D * Y) % M == X, "moddiv: r*y == x mod m");
		CHECK(x[0] == m[0] && words_ok(x, N1), "moddiv: header and word range");
	}
#elif defined(T_REDC_SELF)
	word_t m[N1 + 1];
	mk(m, BL, 0, 1);
	rt M = (rt)val(m, N1);
	rt minv = mk_minv(M);
	rt P = nd_bits(BL + RSH);
	ASSUME(P < (M << RSH));
	rt T = redc(P, M, minv);
	CHECK(T < M, "REDC(P) < M");
	CHECK((T << RSH) % M == P % M, "REDC(P)*R == P mod M");
#else
#error "no test selected"
#endif
	WITNESS_POINT("end");
	return 0;
}
