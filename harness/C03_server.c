/*
 * C03 (server side, C natives of ssl_hs_server.c reached by #include):
 *  PART 1  verify_CV_sig: CertificateVerify accepted only if the verifier ran
 *          with the client's validated key over hash_CV with the right
 *          DigestInfo OID and succeeded.
 *  PART 2  do_rsa_decrypt: master secret computed from the decrypted
 *          premaster only if decryption succeeded, with the version bytes
 *          forced to client_max_version (anti-rollback); otherwise from
 *          fresh random bytes; the premaster buffer is wiped.
 *  PART 3  do_ecdh / do_ecdhe_part2: bad point => random substitute.
 */
#include "common.h"
#include "inner.h"

#ifndef PART
#define PART 1
#endif

/* recording stubs at link seams */
static unsigned char drbg_out[96]; static size_t drbg_len; static int drbg_calls;
void br_hmac_drbg_generate(br_hmac_drbg_context *ctx, void *out, size_t len)
{
	(void)ctx; drbg_calls++;
	for (size_t i = 0; i < len; i++) { unsigned char b = (i < 96) ? drbg_out[i] : 0; ((unsigned char *)out)[i] = b; }
	drbg_len = len;
}
static unsigned char cm_pms[96]; static size_t cm_len; static int cm_calls, cm_prf;
void br_ssl_engine_compute_master(br_ssl_engine_context *cc, int prf_id, const void *pms, size_t len)
{
	(void)cc; cm_calls++; cm_prf = prf_id; cm_len = len;
	for (size_t i = 0; i < len && i < 96; i++) cm_pms[i] = ((const unsigned char *)pms)[i];
}

#include "src/ssl/ssl_hs_server.c"

static br_x509_pkey the_key;
typedef struct { const br_x509_class *vtable; } xstub_ctx;
static const br_x509_pkey *xs_get_pkey(const br_x509_class *const *c, unsigned *usages) { (void)c; (void)usages; return &the_key; }
static const br_x509_class xstub_vtable = { sizeof(xstub_ctx), 0, 0, 0, 0, 0, xs_get_pkey };

static int rsa_calls, ec_calls, vrfy_result;
static const unsigned char *v_sig; static size_t v_sig_len, v_hash_len; static const void *v_key;
static unsigned char v_oid[10]; static int v_oid_null; static unsigned char v_hash[64], rsa_recovered[64];
static uint32_t stub_rsavrfy(const unsigned char *x, size_t xlen, const unsigned char *hash_oid, size_t hash_len, const br_rsa_public_key *pk, unsigned char *hash_out)
{
	rsa_calls++; v_sig = x; v_sig_len = xlen; v_hash_len = hash_len; v_key = pk;
	v_oid_null = (hash_oid == NULL);
	if (hash_oid) for (int i = 0; i < 10; i++) v_oid[i] = hash_oid[i];
	for (size_t i = 0; i < hash_len && i < 64; i++) hash_out[i] = rsa_recovered[i];
	return (uint32_t)vrfy_result;
}
static uint32_t stub_ecdsa(const br_ec_impl *impl, const void *hash, size_t hash_len, const br_ec_public_key *pk, const void *sig, size_t sig_len)
{
	(void)impl; ec_calls++; v_sig = sig; v_sig_len = sig_len; v_hash_len = hash_len; v_key = pk;
	for (size_t i = 0; i < hash_len && i < 64; i++) v_hash[i] = ((const unsigned char *)hash)[i];
	return (uint32_t)vrfy_result;
}

/* key exchange policy stub: "decrypts" in place, returns success flag */
typedef struct { const br_ssl_server_policy_class *vtable; } pstub_ctx;
static unsigned char kx_plain[140]; static uint32_t kx_ok; static size_t kx_outlen; static int kx_calls;
static uint32_t ps_do_keyx(const br_ssl_server_policy_class **p, unsigned char *data, size_t *len)
{
	(void)p; kx_calls++;
	for (size_t i = 0; i < *len && i < 140; i++) data[i] = kx_plain[i];
	if (kx_outlen <= *len) *len = kx_outlen;
	return kx_ok;
}
static const br_ssl_server_policy_class pstub_vtable = { sizeof(pstub_ctx), 0, ps_do_keyx, 0 };

static const unsigned char *ref_oid(int hash)
{
	static const unsigned char o1[] = { 0x05, 0x2B, 0x0E, 0x03, 0x02, 0x1A };
	static const unsigned char o224[] = { 0x09, 0x60, 0x86, 0x48, 0x01, 0x65, 0x03, 0x04, 0x02, 0x04 };
	static const unsigned char o256[] = { 0x09, 0x60, 0x86, 0x48, 0x01, 0x65, 0x03, 0x04, 0x02, 0x01 };
	static const unsigned char o384[] = { 0x09, 0x60, 0x86, 0x48, 0x01, 0x65, 0x03, 0x04, 0x02, 0x02 };
	static const unsigned char o512[] = { 0x09, 0x60, 0x86, 0x48, 0x01, 0x65, 0x03, 0x04, 0x02, 0x03 };
	switch (hash) { case 2: return o1; case 3: return o224; case 4: return o256; case 5: return o384; default: return o512; }
}

int main(void)
{
	br_ssl_server_context sctx;
	xstub_ctx xs; pstub_ctx ps;
	const br_x509_class **xsp = &xs.vtable;
	const br_ssl_server_policy_class **psp = &ps.vtable;
#ifdef NATIVE_REPLAY
	NATIVE_FILL(&sctx, sizeof sctx);
#endif
	xs.vtable = &xstub_vtable; ps.vtable = &pstub_vtable;
	sctx.eng.x509ctx = xsp;
	sctx.policy_vtable = psp;

#if PART == 1
	sctx.eng.irsavrfy = (ND_U8() & 1) ? stub_rsavrfy : 0;
	sctx.eng.iecdsa = (ND_U8() & 1) ? stub_ecdsa : 0;
	sctx.eng.iec = NULL;
	the_key.key_type = (ND_U8() & 1) ? BR_KEYTYPE_RSA : BR_KEYTYPE_EC;
	int id = ND_U8();
	/* hash_CV_id / hash_CV_len are set by the T0 code: 0 (MD5+SHA-1, 36 bytes, RSA only) or 2..6 */
	ASSUME((id >= 2 && id <= 6) || (id == 0 && the_key.key_type == BR_KEYTYPE_RSA));
	static const unsigned char HL[7] = { 36, 0, 20, 28, 32, 48, 64 };
	sctx.hash_CV_id = id; sctx.hash_CV_len = HL[id];
	ND_BYTES(sctx.hash_CV, 64);
	ND_BYTES(rsa_recovered, 64);
	ND_BYTES(sctx.eng.pad, 8);
	vrfy_result = ND_U8() & 1;
	int r = verify_CV_sig(&sctx, 8);
	int is_rsa = the_key.key_type == BR_KEYTYPE_RSA;
	if (r == 0) {
		CHECK(vrfy_result == 1, "CertificateVerify accepted only if the verifier reported success");
		CHECK(rsa_calls + ec_calls == 1 && (is_rsa ? rsa_calls : ec_calls) == 1, "one verifier call matching the client key type");
		CHECK(v_key == (is_rsa ? (const void *)&the_key.key.rsa : (const void *)&the_key.key.ec), "verified with the client key returned by the validator");
		CHECK(v_sig == sctx.eng.pad && v_sig_len == 8 && v_hash_len == HL[id], "signature bytes and hash length of the message");
		if (is_rsa) {
			for (int i = 0; i < 64; i++) if (i < HL[id]) CHECK(rsa_recovered[i] == sctx.hash_CV[i], "RSA: recovered hash equals the transcript hash");
			if (id == 0) CHECK(v_oid_null, "MD5+SHA-1: no DigestInfo");
			else { const unsigned char *ro = ref_oid(id); CHECK(!v_oid_null, "OID given"); for (int i = 0; i < 10; i++) if (i <= ro[0]) CHECK(v_oid[i] == ro[i], "RSA: DigestInfo OID of the negotiated hash function"); }
			WITNESS_POINT("CV accepted RSA");
		} else {
			for (int i = 0; i < 64; i++) if (i < HL[id]) CHECK(v_hash[i] == sctx.hash_CV[i], "ECDSA: verified hash equals the transcript hash");
			WITNESS_POINT("CV accepted ECDSA");
		}
	} else {
		CHECK(r == BR_ERR_BAD_SIGNATURE, "rejection is reported as a bad signature");
		if (!is_rsa && sctx.eng.iecdsa != 0 && vrfy_result == 1) CHECK(0, "a verified ECDSA CertificateVerify is not rejected");
		WITNESS_POINT("CV rejected");
	}
#elif PART == 2
	unsigned char epms[64];
	ND_BYTES(epms, 64);
	ND_BYTES(kx_plain, 64);
	ND_BYTES(drbg_out, 48);
	kx_ok = ND_U8() & 1; kx_outlen = 48;
	sctx.client_max_version = ND_U16();
	/* the other version registers are explicit inputs too (what a wrong implementation might read instead) */
	sctx.eng.session.version = ND_U16(); sctx.eng.version_in = ND_U16(); sctx.eng.version_out = ND_U16();
	sctx.eng.version_min = ND_U16(); sctx.eng.version_max = ND_U16();
	int prf = ND_U8();
	do_rsa_decrypt(&sctx, prf, epms, 64);
	CHECK(kx_calls == 1 && cm_calls == 1 && cm_len == 48 && cm_prf == prf, "one decryption, one master-secret computation over 48 bytes with the suite's PRF");
	if (kx_ok) {
		CHECK(cm_pms[0] == (unsigned char)(sctx.client_max_version >> 8) && cm_pms[1] == (unsigned char)sctx.client_max_version, "premaster version bytes forced to the client's maximum version (anti-rollback)");
		for (int i = 2; i < 48; i++) CHECK(cm_pms[i] == kx_plain[i], "good padding: master secret from the decrypted premaster");
		WITNESS_POINT("rsa ok");
	} else {
		for (int i = 0; i < 48; i++) CHECK(cm_pms[i] == drbg_out[i], "bad padding: master secret from fresh random bytes, nothing from the decrypted value");
		WITNESS_POINT("rsa bad");
	}
	CHECK(drbg_calls == 1 && drbg_len == 48, "random substitute drawn in both cases");
	for (int i = 0; i < 48; i++) CHECK(epms[i] == 0, "premaster wiped");
#elif PART == 4
	/* do_static_ecdh: the client's certified point (from the validator) goes through the same
	   "random substitute on failure" path as an explicit ClientKeyExchange point */
	unsigned char qpt[40];
	ND_BYTES(qpt, 40);
	ND_BYTES(kx_plain, 40);
	ND_BYTES(drbg_out, 80);
	kx_ok = ND_U8() & 1; kx_outlen = 32;
	the_key.key_type = BR_KEYTYPE_EC;
	the_key.key.ec.curve = 23; the_key.key.ec.q = qpt; the_key.key.ec.qlen = 33;
	int prf = ND_U8();
	do_static_ecdh(&sctx, prf);
	CHECK(kx_calls == 1 && cm_calls == 1 && cm_len == 32 && cm_prf == prf, "one key exchange over the certified point, one master-secret computation");
	for (size_t i = 0; i < 32; i++) CHECK(cm_pms[i] == (kx_ok ? kx_plain[i] : drbg_out[i]), "static ECDH: shared secret used only when the key exchange succeeded; random otherwise");
	CHECK(drbg_calls == 1 && drbg_len == 32, "random substitute drawn on both outcomes (no call pattern depending on the secret validity bit)");
	if (kx_ok) { WITNESS_POINT("static ecdh ok"); } else { WITNESS_POINT("static ecdh bad"); }
#else
	unsigned char cpoint[133];
	ND_BYTES(cpoint, 40);
	ND_BYTES(kx_plain, 40);
	ND_BYTES(drbg_out, 80);
	kx_ok = ND_U8() & 1; kx_outlen = ND_SIZE();
	ASSUME(kx_outlen <= 33);
	int prf = ND_U8();
	do_ecdh(&sctx, prf, cpoint, 33);
	CHECK(kx_calls == 1 && cm_calls == 1 && cm_len == kx_outlen && cm_prf == prf, "one key exchange, one master-secret computation over the X coordinate");
	for (size_t i = 0; i < 33; i++) if (i < kx_outlen) CHECK(cm_pms[i] == (kx_ok ? kx_plain[i] : drbg_out[i]), "shared secret used only when the point was valid; random otherwise");
	for (size_t i = 0; i < 33; i++) if (i < kx_outlen) CHECK(cpoint[i] == 0, "shared secret wiped");
	CHECK(drbg_calls == 1 && drbg_len == kx_outlen, "random substitute drawn on both outcomes (no call pattern depending on the secret validity bit)");
	if (kx_ok) { WITNESS_POINT("ecdh ok"); } else { WITNESS_POINT("ecdh bad"); }
#endif
	return 0;
}
