/*
 * C12 AES cores: br_aes_{big,small}_{encrypt,decrypt},
 * br_aes_ct_bitslice_{encrypt,decrypt}, br_aes_ct64_bitslice_{encrypt,decrypt}
 * with NR rounds equal FIPS-197 Cipher / InvCipher with NR rounds (reference of
 * C12_aesref.h) for EVERY sequence of round keys and every block, in every
 * lane of the bitsliced cores (lanes hold independent symbolic blocks).
 * NR = 1 exercises AddRoundKey, SubBytes, ShiftRows (final round), NR = 2 adds
 * one full round with MixColumns -- every round of the cipher is one of the
 * two; NR = 10/12/14 (the real ciphers) are attempted in the thorough tier.
 * Round keys are symbolic bytes laid out in each implementation's documented
 * format (that the key schedules produce that format is C12_aescomp.c WHAT 3).
 *
 * IMPL 1 big 2 small 3 ct 4 ct64; DIR 0 encrypt 1 decrypt; NR.
 */
#include "C12_aesref.h"

#ifndef NR
#error NR
#endif

int main(void)
{
	unsigned char rk[16 * (NR + 1)];
	ND_BYTES(rk, 16 * (NR + 1));
	ref_init();

#if IMPL == 1 || IMPL == 2
	unsigned char blk[16], ref[16];
	uint32_t sk[4 * (NR + 1)];
	for (int i = 0; i < 16; i++) blk[i] = ref[i] = ND_U8();
#if IMPL == 1 && DIR == 1
	fmt_words_big_inv(sk, rk, NR);
#else
	fmt_words_be(sk, rk, 4 * (NR + 1));
#endif
#if IMPL == 1 && DIR == 0
	br_aes_big_encrypt(NR, sk, blk);
#elif IMPL == 1
	br_aes_big_decrypt(NR, sk, blk);
#elif DIR == 0
	br_aes_small_encrypt(NR, sk, blk);
#else
	br_aes_small_decrypt(NR, sk, blk);
#endif
#if DIR == 0
	ref_encrypt(NR, rk, ref);
#else
	ref_decrypt(NR, rk, ref);
#endif
	for (int i = 0; i < 16; i++) CHECK(blk[i] == ref[i], "core == FIPS-197 cipher with NR rounds");
#elif IMPL == 3
	unsigned char blk[2][16], out[2][16];
	uint32_t q[8], sk[8 * (NR + 1)];
	for (int l = 0; l < 2; l++) ND_BYTES(blk[l], 16);
	fmt_ct(sk, rk, NR);
	pack_ct(q, blk);
#if DIR == 0
	br_aes_ct_bitslice_encrypt(NR, sk, q);
#else
	br_aes_ct_bitslice_decrypt(NR, sk, q);
#endif
	unpack_ct(out, q);
	for (int l = 0; l < 2; l++) {
#if DIR == 0
		ref_encrypt(NR, rk, blk[l]);
#else
		ref_decrypt(NR, rk, blk[l]);
#endif
		for (int i = 0; i < 16; i++) CHECK(out[l][i] == blk[l][i], "bitsliced core == FIPS-197 cipher with NR rounds, in each lane");
	}
#elif IMPL == 4
	unsigned char blk[4][16], out[4][16];
	uint64_t q[8], sk[8 * (NR + 1)];
	for (int l = 0; l < 4; l++) ND_BYTES(blk[l], 16);
	fmt_ct64(sk, rk, NR);
	pack_ct64(q, blk);
#if DIR == 0
	br_aes_ct64_bitslice_encrypt(NR, sk, q);
#else
	br_aes_ct64_bitslice_decrypt(NR, sk, q);
#endif
	unpack_ct64(out, q);
	for (int l = 0; l < 4; l++) {
#if DIR == 0
		ref_encrypt(NR, rk, blk[l]);
#else
		ref_decrypt(NR, rk, blk[l]);
#endif
		for (int i = 0; i < 16; i++) CHECK(out[l][i] == blk[l][i], "bitsliced core == FIPS-197 cipher with NR rounds, in each lane");
	}
#endif
	WITNESS_POINT("core compared with the reference");
	return 0;
}
