#!/usr/bin/env python3
"""
ir2c.py -- encoder E5 (DESIGN.md section 2): LLVM IR (textual, clang-14, typed
pointers) -> C with observation hooks.

    translate(ir_text, entries, prefix="ir_") -> Result(c_text, externs, sites, funcs)

One C function per IR function reachable from the entry points.  SSA values
become C locals of the matching unsigned width (signed operations are kept by
casting at the operation), every pointer is an `unsigned char *` (function
pointers keep a function-pointer type), GEPs are byte arithmetic computed from
the IR type table and the x86-64 data layout of the module, phi nodes are
per-edge parallel assignments, allocas are per-site static objects (no
recursion allowed, checked), globals are emitted as C objects of mirrored
struct types.

Hooks (macros supplied by the including file, see harness/C08_rt.h):
    OBS_BR(site, cond)          at every conditional br / switch (emitted in the arm taken, with the
                                constant the arm stands for; default arm of a switch: the operand)
    OBS_ADDR(site, ptr)         before every load / store / mem intrinsic operand
                                (not emitted when ptr is a link-time constant: an alloca
                                site -- a static object here --, a global, or a constant-index
                                GEP/bitcast of one; such an address is the same in every run)
    OBS_LEN(site, len)          length of a mem intrinsic
    OBS_DIV(site, a, b)         before udiv/sdiv/urem/srem
    OBS_CALL(site, fnptr)       before every indirect call

Anything not understood raises Unsupported: the entry point is then reported
as NOT COVERED by the caller -- never silently skipped.
"""
import re
import sys
import json


class Unsupported(Exception):
    pass


# --------------------------------------------------------------------------
# tokenizer
# --------------------------------------------------------------------------
TOKEN_RE = re.compile(r'''
   (?P<ws>\s+)
 | (?P<str>c?"[^"]*")
 | (?P<local>%[-a-zA-Z$._0-9]+|%"[^"]*")
 | (?P<glob>@[-a-zA-Z$._0-9]+|@"[^"]*")
 | (?P<meta>![-a-zA-Z$._0-9]*)
 | (?P<attr>\#\d+)
 | (?P<num>-?\d+\.\d+(?:e[+-]?\d+)?|0x[0-9A-Fa-f]+|-?\d+)
 | (?P<dots>\.\.\.)
 | (?P<word>[a-zA-Z_][a-zA-Z0-9_.]*)
 | (?P<punct>[()\[\]{}<>,=*:|])
''', re.X)


def tokenize(s):
    toks = []
    i = 0
    n = len(s)
    while i < n:
        if s[i] == ';':
            break
        m = TOKEN_RE.match(s, i)
        if not m:
            raise Unsupported("cannot tokenize: %r" % s[i:i + 40])
        i = m.end()
        k = m.lastgroup
        if k == 'ws':
            continue
        toks.append((k, m.group(k)))
    return toks


class TS:
    """token stream"""

    def __init__(self, toks, src=""):
        self.t = toks
        self.i = 0
        self.src = src

    def peek(self, k=0):
        j = self.i + k
        return self.t[j] if j < len(self.t) else ('eof', '')

    def next(self):
        x = self.peek()
        self.i += 1
        return x

    def at(self, v):
        return self.peek()[1] == v

    def accept(self, v):
        if self.peek()[1] == v:
            self.i += 1
            return True
        return False

    def expect(self, v):
        x = self.next()
        if x[1] != v:
            raise Unsupported("expected %r got %r in: %s" % (v, x[1], self.src[:200]))

    def eof(self):
        return self.i >= len(self.t)


# --------------------------------------------------------------------------
# types
# --------------------------------------------------------------------------
# ('void',) ('int',N) ('ptr',T) ('arr',N,T) ('struct',(T..),packed) ('named',name)
# ('func',ret,(params..),vararg) ('fp',kind) ('vec',N,T) ('label',) ('metadata',)

VOID = ('void',)
I1 = ('int', 1)
I8 = ('int', 8)
I32 = ('int', 32)
I64 = ('int', 64)
PTR8 = ('ptr', I8)

PARAM_ATTRS = {
    'noundef', 'zeroext', 'signext', 'nonnull', 'noalias', 'inreg', 'nocapture', 'readonly',
    'writeonly', 'readnone', 'immarg', 'returned', 'nofree', 'nest', 'swiftself', 'swifterror',
    'noreturn', 'nounwind',
}
PARAM_ATTRS_ARG = {'align', 'dereferenceable', 'dereferenceable_or_null', 'sret', 'byval', 'byref',
                   'inalloca', 'preallocated', 'elementtype'}
LINKAGE_WORDS = {
    'dso_local', 'dso_preemptable', 'internal', 'private', 'external', 'linkonce', 'linkonce_odr',
    'weak', 'weak_odr', 'common', 'appending', 'extern_weak', 'available_externally', 'hidden',
    'protected', 'default', 'unnamed_addr', 'local_unnamed_addr', 'thread_local', 'ccc', 'fastcc',
    'coldcc', 'externally_initialized',
}


def parse_type(ts):
    k, v = ts.next()
    if k == 'word':
        if v == 'void':
            t = VOID
        elif re.match(r'^i\d+$', v):
            t = ('int', int(v[1:]))
        elif v in ('float', 'double', 'half', 'x86_fp80', 'fp128', 'bfloat', 'ppc_fp128'):
            t = ('fp', v)
        elif v == 'label':
            t = ('label',)
        elif v == 'metadata':
            t = ('metadata',)
        elif v == 'ptr':
            raise Unsupported("opaque pointers not supported (use clang-14 typed pointers)")
        elif v == 'opaque':
            t = ('opaque',)
        else:
            raise Unsupported("unknown type word %r in: %s" % (v, ts.src[:200]))
    elif k == 'local':
        t = ('named', v[1:].strip('"'))
    elif v == '[':
        n = int(ts.next()[1])
        ts.expect('x')
        e = parse_type(ts)
        ts.expect(']')
        t = ('arr', n, e)
    elif v == '{':
        el = []
        if not ts.accept('}'):
            while True:
                el.append(parse_type(ts))
                if ts.accept('}'):
                    break
                ts.expect(',')
        t = ('struct', tuple(el), False)
    elif v == '<':
        if ts.at('{'):
            ts.next()
            el = []
            if not ts.accept('}'):
                while True:
                    el.append(parse_type(ts))
                    if ts.accept('}'):
                        break
                    ts.expect(',')
            ts.expect('>')
            t = ('struct', tuple(el), True)
        else:
            n = int(ts.next()[1])
            ts.expect('x')
            e = parse_type(ts)
            ts.expect('>')
            t = ('vec', n, e)
    else:
        raise Unsupported("cannot parse type at %r in: %s" % (v, ts.src[:200]))
    # suffixes
    while True:
        if ts.at('*'):
            ts.next()
            t = ('ptr', t)
        elif ts.at('(') and t[0] != 'label':
            # function type
            ts.next()
            ps = []
            va = False
            if not ts.accept(')'):
                while True:
                    if ts.at('...'):
                        ts.next()
                        va = True
                    else:
                        ps.append(parse_type(ts))
                    if ts.accept(')'):
                        break
                    ts.expect(',')
            t = ('func', t, tuple(ps), va)
        elif ts.peek()[1] == 'addrspace':
            raise Unsupported("addrspace")
        else:
            break
    return t


# --------------------------------------------------------------------------
# module parsing
# --------------------------------------------------------------------------
class Global:
    def __init__(self, name, ty, init, const, external, align, internal):
        self.name = name
        self.ty = ty
        self.init = init
        self.const = const
        self.external = external
        self.align = align
        self.internal = internal


class Function:
    def __init__(self, name, ret, params, vararg, internal):
        self.name = name
        self.ret = ret
        self.params = params      # list of (type, name or None)
        self.vararg = vararg
        self.internal = internal
        self.blocks = None        # list of (label, [instr lines]) ; None for declarations
        self.byval = False


def skip_attrs(ts, extra=()):
    """skip parameter / return attributes and linkage words"""
    flags = set()
    while True:
        k, v = ts.peek()
        if k == 'word' and (v in PARAM_ATTRS or v in LINKAGE_WORDS or v in extra):
            ts.next()
            flags.add(v)
        elif k == 'word' and v in PARAM_ATTRS_ARG:
            ts.next()
            flags.add(v)
            if ts.at('('):
                depth = 0
                while True:
                    x = ts.next()[1]
                    if x == '(':
                        depth += 1
                    elif x == ')':
                        depth -= 1
                        if depth == 0:
                            break
            else:
                ts.next()  # align N
        elif k == 'attr':
            ts.next()
        else:
            return flags


class Module:
    def __init__(self, text):
        self.types = {}
        self.globals = {}
        self.funcs = {}
        self.parse(text)

    def parse(self, text):
        lines = text.split('\n')
        i = 0
        n = len(lines)
        while i < n:
            ln = lines[i]
            i += 1
            s = ln.strip()
            if not s or s.startswith(';') or s.startswith('target ') or s.startswith('source_filename') \
                    or s.startswith('attributes ') or s.startswith('!') or s.startswith('module asm'):
                if s.startswith('module asm'):
                    raise Unsupported("module-level asm")
                continue
            if s.startswith('%') or s.startswith('%"'):
                m = re.match(r'^(%[-a-zA-Z$._0-9]+|%"[^"]*")\s*=\s*type\s+(.*)$', s)
                if not m:
                    raise Unsupported("bad type line: " + s[:100])
                ts = TS(tokenize(m.group(2)), s)
                self.types[m.group(1)[1:].strip('"')] = parse_type(ts)
                continue
            if s.startswith('@'):
                self.parse_global(s)
                continue
            if s.startswith('declare '):
                self.parse_fnhead(s[len('declare '):], None)
                continue
            if s.startswith('define '):
                body = []
                while i < n and lines[i].strip() != '}':
                    body.append(lines[i])
                    i += 1
                i += 1
                self.parse_fnhead(s[len('define '):], body)
                continue
            if s.startswith('$') and 'comdat' in s:
                continue
            raise Unsupported("unknown top-level line: " + s[:100])

    def parse_global(self, s):
        toks = tokenize(s)
        ts = TS(toks, s)
        name = ts.next()[1][1:].strip('"')
        ts.expect('=')
        flags = set()
        const = None
        while True:
            k, v = ts.peek()
            if v in ('global', 'constant'):
                ts.next()
                const = (v == 'constant')
                break
            if v in ('alias', 'ifunc'):
                self.globals[name] = Global(name, None, ('unsupported', 'alias'), False, True, 1, False)
                return
            if k != 'word':
                raise Unsupported("bad global: " + s[:100])
            ts.next()
            flags.add(v)
            if v == 'thread_local' and ts.at('('):
                raise Unsupported("thread_local global")
        ty = parse_type(ts)
        init = None
        external = ('external' in flags or 'extern_weak' in flags)
        if not external:
            init = parse_const(ts, ty)
        align = None
        while ts.accept(','):
            k, v = ts.next()
            if v == 'align':
                align = int(ts.next()[1])
            elif v in ('section', 'comdat', 'partition'):
                if not ts.eof() and ts.peek()[0] in ('str',):
                    ts.next()
            elif k == 'meta':
                break
        self.globals[name] = Global(name, ty, init, const, external, align, 'internal' in flags or 'private' in flags)

    def parse_fnhead(self, s, body):
        toks = tokenize(s)
        ts = TS(toks, s)
        flags = skip_attrs(ts)
        ret = parse_type(ts)
        k, v = ts.next()
        if k != 'glob':
            raise Unsupported("bad function header: " + s[:120])
        name = v[1:].strip('"')
        ts.expect('(')
        params = []
        va = False
        byval = False
        if not ts.accept(')'):
            while True:
                if ts.at('...'):
                    ts.next()
                    va = True
                else:
                    pt = parse_type(ts)
                    fl = skip_attrs(ts)
                    if 'byval' in fl or 'inalloca' in fl:
                        byval = True
                    pn = None
                    if ts.peek()[0] == 'local':
                        pn = ts.next()[1]
                    params.append((pt, pn))
                if ts.accept(')'):
                    break
                ts.expect(',')
        f = Function(name, ret, params, va, 'internal' in flags or 'private' in flags)
        f.byval = byval
        if body is not None:
            f.blocks = body
        if name in self.funcs and self.funcs[name].blocks is not None and body is None:
            return
        self.funcs[name] = f


# --------------------------------------------------------------------------
# constants (parsed form): ('int', n) ('null',) ('undef',) ('zero',) ('array',[c..]) ('struct',[c..])
#   ('global', name) ('local', name) ('cexpr', op, ...) ('bytes', b'..')
# --------------------------------------------------------------------------
CAST_OPS = {'bitcast', 'ptrtoint', 'inttoptr', 'trunc', 'zext', 'sext', 'addrspacecast'}
BIN_OPS = {'add', 'sub', 'mul', 'udiv', 'sdiv', 'urem', 'srem', 'shl', 'lshr', 'ashr', 'and', 'or', 'xor'}
BIN_FLAGS = {'nsw', 'nuw', 'exact'}


def unescape_llvm(s):
    out = bytearray()
    i = 0
    while i < len(s):
        c = s[i]
        if c == '\\':
            if s[i + 1] == '\\':
                out.append(0x5c)
                i += 2
            else:
                out.append(int(s[i + 1:i + 3], 16))
                i += 3
        else:
            out.append(ord(c))
            i += 1
    return bytes(out)


def parse_const(ts, ty):
    """parse a value of known type ty (constant or local)"""
    k, v = ts.next()
    if k == 'num':
        if v.startswith('0x') or '.' in v:
            raise Unsupported("floating-point constant")
        return ('int', int(v))
    if k == 'local':
        return ('local', v)
    if k == 'glob':
        return ('global', v[1:].strip('"'))
    if k == 'str':
        assert v.startswith('c"')
        return ('bytes', unescape_llvm(v[2:-1]))
    if k == 'word':
        if v == 'true':
            return ('int', 1)
        if v == 'false':
            return ('int', 0)
        if v == 'null':
            return ('null',)
        if v in ('undef', 'poison'):
            return ('undef',)
        if v == 'zeroinitializer':
            return ('zero',)
        if v == 'getelementptr':
            ts.accept('inbounds')
            ts.expect('(')
            sty = parse_type(ts)
            ts.expect(',')
            pty = parse_type(ts)
            base = parse_const(ts, pty)
            idx = []
            while ts.accept(','):
                ts.accept('inrange')
                ity = parse_type(ts)
                idx.append((ity, parse_const(ts, ity)))
            ts.expect(')')
            return ('cexpr', 'gep', sty, pty, base, idx)
        if v in CAST_OPS:
            ts.expect('(')
            fty = parse_type(ts)
            val = parse_const(ts, fty)
            ts.expect('to')
            tty = parse_type(ts)
            ts.expect(')')
            return ('cexpr', 'cast', v, fty, val, tty)
        if v in BIN_OPS:
            while ts.peek()[1] in BIN_FLAGS:
                ts.next()
            ts.expect('(')
            t1 = parse_type(ts)
            a = parse_const(ts, t1)
            ts.expect(',')
            t2 = parse_type(ts)
            b = parse_const(ts, t2)
            ts.expect(')')
            return ('cexpr', 'bin', v, t1, a, b)
        if v == 'icmp':
            pred = ts.next()[1]
            ts.expect('(')
            t1 = parse_type(ts)
            a = parse_const(ts, t1)
            ts.expect(',')
            t2 = parse_type(ts)
            b = parse_const(ts, t2)
            ts.expect(')')
            return ('cexpr', 'icmp', pred, t1, a, b)
        if v == 'select':
            ts.expect('(')
            tc = parse_type(ts)
            c = parse_const(ts, tc)
            ts.expect(',')
            t1 = parse_type(ts)
            a = parse_const(ts, t1)
            ts.expect(',')
            t2 = parse_type(ts)
            b = parse_const(ts, t2)
            ts.expect(')')
            return ('cexpr', 'select', tc, c, t1, a, b)
        raise Unsupported("constant expression %r" % v)
    if v == '[':
        el = []
        if not ts.accept(']'):
            while True:
                et = parse_type(ts)
                el.append((et, parse_const(ts, et)))
                if ts.accept(']'):
                    break
                ts.expect(',')
        return ('array', el)
    if v == '{':
        el = []
        if not ts.accept('}'):
            while True:
                et = parse_type(ts)
                el.append((et, parse_const(ts, et)))
                if ts.accept('}'):
                    break
                ts.expect(',')
        return ('structc', el)
    if v == '<':
        if ts.at('{'):
            ts.next()
            el = []
            if not ts.accept('}'):
                while True:
                    et = parse_type(ts)
                    el.append((et, parse_const(ts, et)))
                    if ts.accept('}'):
                        break
                    ts.expect(',')
            ts.expect('>')
            return ('structc', el)
        raise Unsupported("vector constant")
    raise Unsupported("cannot parse constant at %r in %s" % (v, ts.src[:160]))


# --------------------------------------------------------------------------
# translator
# --------------------------------------------------------------------------
def cname(s):
    return re.sub(r'[^A-Za-z0-9_]', '_', s)


class Result:
    def __init__(self):
        self.c_text = ""
        self.externs = []      # external functions the includer must define: (cname, prototype)
        self.extern_globals = []
        self.sites = {}        # id -> description
        self.funcs = []        # translated IR function names
        self.ninstr = 0
        self.elided = 0


class Translator:
    def __init__(self, mod, prefix="ir_", site_base=0, stubs=()):
        self.m = mod
        self.stubs = set(stubs)   # defined functions to be treated as externals (bodies supplied by the includer)
        self.px = prefix
        self.gpx = prefix + "g_"
        self.site = site_base
        self.sites = {}
        self.struct_names = {}   # canonical type -> C struct name
        self.struct_defs = []    # emitted in order
        self.fp_names = {}
        self.fp_defs = []
        self.static_asserts = []
        self.ninstr = 0
        self.elided = 0   # loads/stores whose address is a link-time constant (alloca site, global): not observed
        self.copy_helpers = {}
        self.cur_defs = {}

    # ---- layout -------------------------------------------------------
    def resolve(self, t):
        while t[0] == 'named':
            if t[1] not in self.m.types:
                raise Unsupported("unknown named type %" + t[1])
            t = self.m.types[t[1]]
        return t

    def sizeof(self, t):
        t = self.resolve(t)
        k = t[0]
        if k == 'int':
            n = t[1]
            if n <= 8:
                return 1
            if n <= 16:
                return 2
            if n <= 32:
                return 4
            if n <= 64:
                return 8
            if n <= 128:
                return 16
            raise Unsupported("integer width %d" % n)
        if k == 'ptr':
            return 8
        if k == 'arr':
            return t[1] * self.sizeof(t[2])
        if k == 'struct':
            return self.struct_layout(t)[1]
        if k == 'opaque':
            raise Unsupported("sizeof opaque type")
        raise Unsupported("sizeof %r" % (t[0],))

    def alignof(self, t):
        t = self.resolve(t)
        k = t[0]
        if k == 'int':
            return self.sizeof(t)
        if k == 'ptr':
            return 8
        if k == 'arr':
            return self.alignof(t[2])
        if k == 'struct':
            if t[2]:
                return 1
            a = 1
            for e in t[1]:
                a = max(a, self.alignof(e))
            return a
        raise Unsupported("alignof %r" % (t[0],))

    def struct_layout(self, t):
        """returns (offsets[], size)"""
        t = self.resolve(t)
        off = 0
        offs = []
        packed = t[2]
        for e in t[1]:
            if not packed:
                a = self.alignof(e)
                off = (off + a - 1) // a * a
            offs.append(off)
            off += self.sizeof(e)
        if not packed:
            a = self.alignof(t)
            off = (off + a - 1) // a * a
        return offs, off

    # ---- C types ------------------------------------------------------
    def int_ctype(self, n):
        if n <= 8:
            return 'uint8_t'
        if n <= 16:
            return 'uint16_t'
        if n <= 32:
            return 'uint32_t'
        if n <= 64:
            return 'uint64_t'
        if n <= 128:
            return 'ir_u128'
        raise Unsupported("integer width %d" % n)

    def fp_typedef(self, ft):
        """C typedef name of pointer-to-function type ft"""
        ft = self.resolve(ft)
        if ft[3]:
            raise Unsupported("pointer to variadic function")
        ret = self.val_ctype(ft[1]) if ft[1] != VOID else 'void'
        ps = [self.val_ctype(p) for p in ft[2]]
        key = (ret, tuple(ps))
        if key not in self.fp_names:
            nm = "%sfp%d" % (self.px, len(self.fp_names))
            self.fp_names[key] = nm
            self.fp_defs.append("typedef %s (*%s)(%s);" % (ret, nm, ", ".join(ps) if ps else "void"))
        return self.fp_names[key]

    def is_fnptr(self, t):
        t = self.resolve(t)
        return t[0] == 'ptr' and self.resolve(t[1])[0] == 'func'

    def val_ctype(self, t):
        """C type of a first-class SSA value / memory scalar"""
        t = self.resolve(t)
        k = t[0]
        if k == 'int':
            return self.int_ctype(t[1])
        if k == 'ptr':
            if self.is_fnptr(t):
                return self.fp_typedef(self.resolve(t[1]))
            return 'unsigned char *'
        if k == 'struct':
            return 'struct ' + self.struct_cname(t)
        if k == 'fp':
            raise Unsupported("floating-point type")
        if k == 'vec':
            raise Unsupported("vector type")
        raise Unsupported("value of type %r" % (k,))

    def struct_cname(self, t, hint=None):
        t0 = t
        t = self.resolve(t)
        key = repr(t)
        if key in self.struct_names:
            return self.struct_names[key]
        nm = "%ss%d" % (self.px, len(self.struct_names))
        if t0[0] == 'named':
            nm += "_" + cname(t0[1])[:40]
        self.struct_names[key] = nm
        fields = []
        for i, e in enumerate(t[1]):
            fields.append("  " + self.decl(e, "f%d" % i) + ";")
        if not t[1]:
            fields.append("  char ir_empty_[0];")
        d = "struct %s {\n%s\n}%s;" % (nm, "\n".join(fields), " __attribute__((packed))" if t[2] else "")
        self.struct_defs.append(d)
        offs, size = self.struct_layout(t)
        self.static_asserts.append("_Static_assert(sizeof(struct %s) == %d, \"layout %s\");" % (nm, size, nm))
        for i, o in enumerate(offs):
            self.static_asserts.append("_Static_assert(__builtin_offsetof(struct %s, f%d) == %d, \"layout %s.f%d\");" % (nm, i, o, nm, i))
        return nm

    def decl(self, t, name):
        """C declarator of an object of IR type t"""
        tt = t
        t = self.resolve(t)
        k = t[0]
        if k == 'arr':
            # nested arrays: collect dims
            dims = []
            while t[0] == 'arr':
                dims.append(t[1])
                tt = t[2]
                t = self.resolve(t[2])
            base = self.decl(tt, name + "".join("[%d]" % d for d in dims))
            return base
        if k == 'struct':
            return "struct %s %s" % (self.struct_cname(tt), name)
        return "%s %s" % (self.val_ctype(t), name)

    # ---- constants / values ------------------------------------------
    def int_lit(self, n, w):
        n &= (1 << w) - 1
        ct = self.int_ctype(w)
        if w <= 64:
            return "((%s)UINT64_C(%d))" % (ct, n)
        return "((((ir_u128)UINT64_C(%d)) << 64) | (ir_u128)UINT64_C(%d))" % (n >> 64, n & ((1 << 64) - 1))

    def gname(self, name):
        return self.gpx + cname(name)

    def fname(self, name):
        return self.px + cname(name)

    def const_expr(self, c, ty, env=None):
        """C expression (value) of constant/value c of IR type ty"""
        ty_r = self.resolve(ty)
        k = c[0]
        if k == 'int':
            if ty_r[0] != 'int':
                raise Unsupported("integer literal of non-integer type")
            return self.int_lit(c[1], ty_r[1])
        if k == 'local':
            if env is None:
                raise Unsupported("local in constant")
            return env(c[1])
        if k == 'null':
            return "((%s)0)" % self.val_ctype(ty_r)
        if k in ('undef', 'zero'):
            if ty_r[0] == 'int':
                return self.int_lit(0, ty_r[1])
            if ty_r[0] == 'ptr':
                return "((%s)0)" % self.val_ctype(ty_r)
            if ty_r[0] == 'struct' and env is not None:
                return "((struct %s){0})" % self.struct_cname(ty)
            raise Unsupported("undef/zero of aggregate type as value")
        if k == 'global':
            nm = c[1]
            self.ref_global(nm)
            if nm in self.m.funcs:
                if self.is_fnptr(ty_r):
                    return "((%s)&%s)" % (self.val_ctype(ty_r), self.fname(nm))
                return "((unsigned char *)&%s)" % self.fname(nm)
            if self.is_fnptr(ty_r):
                return "((%s)&%s)" % (self.val_ctype(ty_r), self.gname(nm))
            return "((unsigned char *)&%s)" % self.gname(nm)
        if k == 'cexpr':
            op = c[1]
            if op == 'gep':
                _, _, sty, pty, base, idx = c
                b = self.const_expr(base, pty, env)
                off = self.gep_offset(sty, [(it, self.idx_operand(it, iv, env)) for (it, iv) in idx])
                return "((unsigned char *)(%s) + %s)" % (b, off) if off != "0" else "((unsigned char *)(%s))" % b
            if op == 'cast':
                _, _, cop, fty, val, tty = c
                v = self.const_expr(val, fty, env)
                return self.cast_expr(cop, fty, v, tty)
            if op == 'bin':
                _, _, bop, t1, a, b = c
                return self.bin_expr(bop, t1, self.const_expr(a, t1, env), self.const_expr(b, t1, env), None)[0]
            if op == 'icmp':
                _, _, pred, t1, a, b = c
                return self.icmp_expr(pred, t1, self.const_expr(a, t1, env), self.const_expr(b, t1, env))
            if op == 'select':
                _, _, tc, cc, t1, a, b = c
                return "(%s ? %s : %s)" % (self.const_expr(cc, tc, env), self.const_expr(a, t1, env), self.const_expr(b, t1, env))
        raise Unsupported("constant kind %r as value" % (k,))

    def idx_operand(self, ity, iv, env):
        """returns ('c', n) or ('e', signed-64 C expr)"""
        if iv[0] == 'int':
            return ('c', iv[1])
        w = self.resolve(ity)[1]
        e = self.const_expr(iv, ity, env)
        return ('e', self.sext_to_s64(e, w))

    def sext_to_s64(self, e, w):
        if w == 64:
            return "(int64_t)(%s)" % e
        if w in (8, 16, 32):
            return "(int64_t)(int%d_t)(%s)" % (w, e)
        return "((int64_t)(((uint64_t)(%s) ^ UINT64_C(%d)) - UINT64_C(%d)))" % (e, 1 << (w - 1), 1 << (w - 1))

    def gep_offset(self, sty, idx):
        """byte offset expression string for GEP over source element type sty.  The arithmetic is
        done in uint64_t (wrapping, like the IR) and converted to a signed offset at the end."""
        const = 0
        terms = []
        cur = sty
        first = True
        for (ity, iv) in idx:
            if first:
                stride = self.sizeof(cur)
                first = False
                if iv[0] == 'c':
                    const += iv[1] * stride
                else:
                    terms.append("(uint64_t)%s * UINT64_C(%d)" % (iv[1], stride))
                continue
            ct = self.resolve(cur)
            if ct[0] == 'struct':
                if iv[0] != 'c':
                    raise Unsupported("non-constant struct index in GEP")
                offs, _ = self.struct_layout(ct)
                const += offs[iv[1]]
                cur = ct[1][iv[1]]
            elif ct[0] == 'arr':
                stride = self.sizeof(ct[2])
                if iv[0] == 'c':
                    const += iv[1] * stride
                else:
                    terms.append("(uint64_t)%s * UINT64_C(%d)" % (iv[1], stride))
                cur = ct[2]
            else:
                raise Unsupported("GEP into %r" % (ct[0],))
        if not terms:
            return "(int64_t)%d" % const if const < 0 else "%d" % const
        if const:
            terms.append("UINT64_C(%d)" % (const & ((1 << 64) - 1)))
        return "(int64_t)(" + " + ".join(terms) + ")"

    def cast_expr(self, op, fty, v, tty):
        f = self.resolve(fty)
        t = self.resolve(tty)
        if op == 'bitcast':
            if f[0] == 'ptr' and t[0] == 'ptr':
                return "((%s)(%s))" % (self.val_ctype(t), v)
            if f[0] == 'int' and t[0] == 'int' and f[1] == t[1]:
                return v
            raise Unsupported("bitcast %s -> %s" % (f[0], t[0]))
        if op == 'ptrtoint':
            return self.mask("(%s)(uintptr_t)(%s)" % (self.int_ctype(t[1]), v), t[1])
        if op == 'inttoptr':
            return "((%s)(uintptr_t)(%s))" % (self.val_ctype(t), v)
        if f[0] != 'int' or t[0] != 'int':
            raise Unsupported("%s on non-integer" % op)
        if op == 'trunc':
            return self.mask("(%s)(%s)" % (self.int_ctype(t[1]), v), t[1])
        if op == 'zext':
            return "((%s)(%s))" % (self.int_ctype(t[1]), v)
        if op == 'sext':
            return self.mask("(%s)%s" % (self.int_ctype(t[1]), self.signed_of(v, f[1], t[1])), t[1])
        raise Unsupported("cast " + op)

    def mask(self, e, w):
        if w in (8, 16, 32, 64, 128):
            return "(" + e + ")"
        if w < 64:
            return "((%s)((%s) & UINT64_C(%d)))" % (self.int_ctype(w), e, (1 << w) - 1)
        return "((ir_u128)((%s) & ((((ir_u128)1) << %d) - 1)))" % (e, w)

    def signed_ctype(self, w):
        """signed compute type able to hold a sign-extended w-bit value (at least 32 bits)"""
        if w <= 32:
            return 'int32_t'
        if w <= 64:
            return 'int64_t'
        return 'ir_s128'

    def unsigned_wtype(self, w):
        if w <= 32:
            return 'uint32_t'
        if w <= 64:
            return 'uint64_t'
        return 'ir_u128'

    def signed_of(self, v, w, tw=None):
        """expression of signed compute type holding the sign-extension of w-bit value v"""
        st = self.signed_ctype(max(w, tw or w))
        if w in (8, 16, 32, 64):
            return "((%s)(int%d_t)(%s))" % (st, w, v)
        if w == 128:
            return "((ir_s128)(%s))" % v
        ut = self.unsigned_wtype(max(w, tw or w))
        sb = "((%s)1 << %d)" % (ut, w - 1)
        return "((%s)((((%s)(%s)) ^ %s) - %s))" % (st, ut, v, sb, sb)

    def bin_expr(self, op, ty, a, b, site):
        """returns (expr, pre-statement or None)"""
        t = self.resolve(ty)
        if t[0] != 'int':
            raise Unsupported("binary op on %r" % (t[0],))
        w = t[1]
        ct = self.int_ctype(w)
        ut = self.unsigned_wtype(w)
        pre = None
        if op in ('add', 'sub', 'mul', 'and', 'or', 'xor'):
            o = {'add': '+', 'sub': '-', 'mul': '*', 'and': '&', 'or': '|', 'xor': '^'}[op]
            e = "(%s)((%s)(%s) %s (%s)(%s))" % (ct, ut, a, o, ut, b)
            return self.mask(e, w), pre
        if op == 'shl':
            e = "(((%s)(%s) < %d) ? (%s)((%s)(%s) << (%s)) : (%s)0)" % (ut, b, w, ct, ut, a, b, ct)
            return self.mask(e, w), pre
        if op == 'lshr':
            e = "(((%s)(%s) < %d) ? (%s)((%s)(%s) >> (%s)) : (%s)0)" % (ut, b, w, ct, ut, a, b, ct)
            return self.mask(e, w), pre
        if op == 'ashr':
            sa = self.signed_of(a, w)
            e = "(%s)(%s >> (((%s)(%s) < %d) ? (%s) : %d))" % (ct, sa, ut, b, w, b, w - 1)
            return self.mask(e, w), pre
        if op in ('udiv', 'urem'):
            o = '/' if op == 'udiv' else '%'
            if site is not None:
                pre = "OBS_DIV(%d, %s, %s);" % (site, a, b)
            e = "(%s)((%s)(%s) %s (%s)(%s))" % (ct, ut, a, o, ut, b)
            return self.mask(e, w), pre
        if op in ('sdiv', 'srem'):
            o = '/' if op == 'sdiv' else '%'
            if site is not None:
                pre = "OBS_DIV(%d, %s, %s);" % (site, a, b)
            e = "(%s)(%s %s %s)" % (ct, self.signed_of(a, w), o, self.signed_of(b, w))
            return self.mask(e, w), pre
        raise Unsupported("binary op " + op)

    def icmp_expr(self, pred, ty, a, b):
        t = self.resolve(ty)
        if t[0] == 'ptr':
            o = {'eq': '==', 'ne': '!=', 'ult': '<', 'ule': '<=', 'ugt': '>', 'uge': '>='}.get(pred)
            if o is None:
                raise Unsupported("signed pointer comparison")
            if pred in ('eq', 'ne'):
                return "((uint8_t)((unsigned char *)(%s) %s (unsigned char *)(%s)))" % (a, o, b)
            return "((uint8_t)IR_PTRCMP((unsigned char *)(%s), %s, (unsigned char *)(%s)))" % (a, o, b)
        if t[0] != 'int':
            raise Unsupported("icmp on %r" % (t[0],))
        w = t[1]
        if pred in ('eq', 'ne', 'ult', 'ule', 'ugt', 'uge'):
            o = {'eq': '==', 'ne': '!=', 'ult': '<', 'ule': '<=', 'ugt': '>', 'uge': '>='}[pred]
            ut = self.unsigned_wtype(w)
            return "((uint8_t)((%s)(%s) %s (%s)(%s)))" % (ut, a, o, ut, b)
        o = {'slt': '<', 'sle': '<=', 'sgt': '>', 'sge': '>='}[pred]
        return "((uint8_t)(%s %s %s))" % (self.signed_of(a, w), o, self.signed_of(b, w))

    # ---- reachability -------------------------------------------------
    def ref_global(self, name):
        if name in self.m.funcs:
            if name not in self.need_funcs:
                self.need_funcs.add(name)
                self.work.append(('f', name))
        elif name in self.m.globals:
            if name not in self.need_globals:
                self.need_globals.add(name)
                self.work.append(('g', name))
        else:
            raise Unsupported("reference to unknown symbol @" + name)

    # ---- global emission ---------------------------------------------
    def init_expr(self, ty, c):
        """C initializer for object of type ty from constant c"""
        t = self.resolve(ty)
        k = c[0]
        if t[0] == 'arr':
            if k == 'zero' or k == 'undef':
                return "{0}"
            if k == 'bytes':
                return "{" + ",".join(str(x) for x in c[1]) + "}"
            if k == 'array':
                return "{" + ", ".join(self.init_expr(et, ev) for (et, ev) in c[1]) + "}"
            raise Unsupported("array initializer kind " + k)
        if t[0] == 'struct':
            if k == 'zero' or k == 'undef':
                return "{0}"
            if k == 'structc':
                if len(c[1]) != len(t[1]):
                    raise Unsupported("struct initializer arity")
                return "{" + ", ".join(self.init_expr(et, ev) for (et, ev) in c[1]) + "}"
            raise Unsupported("struct initializer kind " + k)
        return self.const_expr(c, ty)

    def global_def_type(self, g):
        """IR type to use for the definition: literal struct initializers may have a different
        (layout-compatible) type than the declared one (unions)."""
        return g.ty

    # ---- function translation ----------------------------------------
    def new_site(self, fn, kind, text):
        self.site += 1
        self.sites[self.site] = {"fn": fn, "kind": kind, "ir": text.strip()[:160]}
        return self.site

    def translate_function(self, f):
        fn = f.name
        if f.vararg:
            raise Unsupported("variadic function @" + fn)
        if f.byval:
            raise Unsupported("byval/inalloca parameter in @" + fn)
        out = []
        vtypes = {}     # local name -> IR type
        vnames = {}

        def vn(local):
            if local not in vnames:
                vnames[local] = "v" + cname(local[1:].strip('"'))
                # uniqueness
                base = vnames[local]
                k = 1
                while list(vnames.values()).count(vnames[local]) > 1:
                    vnames[local] = "%s_%d" % (base, k)
                    k += 1
            return vnames[local]

        counter = 0
        cparams = []
        for (pt, pn) in f.params:
            if pn is None:
                pn = "%%%d" % counter
            if re.match(r'^%\d+$', pn):
                counter = int(pn[1:]) + 1
            vtypes[pn] = pt
            cparams.append("%s %s" % (self.val_ctype(pt), vn(pn)))
        # split into blocks
        blocks = []
        cur = None
        lines = []
        for raw in f.blocks:
            s = raw.strip()
            if not s or s.startswith(';'):
                continue
            lines.append(raw)
        # join multi-line switch
        joined = []
        acc = None
        for raw in lines:
            s = raw.split(';')[0].rstrip() if '"' not in raw else raw.rstrip()
            if acc is not None:
                acc += " " + s.strip()
                if s.strip().startswith(']'):
                    joined.append(acc)
                    acc = None
                continue
            st = s.strip()
            if st.startswith('switch ') and not st.endswith(']'):
                acc = st
                continue
            joined.append(s)
        first = True
        for s in joined:
            m = re.match(r'^([-a-zA-Z$._0-9]+|"[^"]*"):', s)
            if m and not s.startswith(' '):
                cur = (m.group(1).strip('"'), [])
                blocks.append(cur)
                first = False
                continue
            if first:
                cur = (str(counter), [])
                blocks.append(cur)
                first = False
            cur[1].append(s.strip())
        # parse instructions
        parsed = []   # per block: list of (dest, toks, text)
        for (lab, ins) in blocks:
            pl = []
            for text in ins:
                toks = tokenize(text)
                # strip trailing metadata attachments
                for i in range(len(toks) - 1):
                    if toks[i][1] == ',' and toks[i + 1][0] == 'meta':
                        toks = toks[:i]
                        break
                dest = None
                if len(toks) >= 2 and toks[0][0] == 'local' and toks[1][1] == '=':
                    dest = toks[0][1]
                    toks = toks[2:]
                pl.append((dest, toks, text))
            parsed.append((lab, pl))
        labels = {lab: "L_%s" % cname(lab) for (lab, _) in parsed}
        border = {lab: i for i, (lab, _) in enumerate(parsed)}
        # loop heads = targets of a branch from the same or a later block (in layout order).  CBMC resets
        # the unwinding counter of a loop only when its head is entered by fall-through, so every
        # loop head H gets a pre-header 'LP_H: ir_pre_ = 0;' placed directly before it, and forward
        # branches to H go to LP_H.
        loop_heads = set()
        for (lab, pl) in parsed:
            if not pl:
                continue
            toks = pl[-1][1]
            for j in range(len(toks) - 1):
                if toks[j] == ('word', 'label') and toks[j + 1][0] == 'local':
                    tgt = toks[j + 1][1][1:].strip('"')
                    if tgt in border and border[tgt] <= border[lab]:
                        loop_heads.add(tgt)

        # first pass: result types of all instructions
        def ts_of(toks, text):
            return TS(toks, text)

        defs = {}
        for (lab, pl) in parsed:
            for (dest, toks, text) in pl:
                if dest is None:
                    continue
                vtypes[dest] = self.result_type(toks, text, vtypes)
                defs[dest] = (toks, text)
        self.cur_defs = defs

        def lowbits(c, depth=0):
            """C expression (uint64_t) of the low 4 bits of integer value c if c is built from
            ptrtoint leaves by or/and/xor/trunc/zext (bitwise ops commute with truncation); else None"""
            if depth > 6:
                return None
            if c[0] == 'int':
                return "((uint64_t)%d)" % (c[1] & 15)
            if c[0] != 'local' or c[1] not in defs:
                return None
            toks, text = defs[c[1]]
            op = toks[0][1]
            t2 = TS(toks[1:], text)
            if op == 'ptrtoint':
                pty = parse_type(t2)
                pc = parse_const(t2, pty)
                return "IR_PTR_LOWBITS(%s)" % self.const_expr(pc, pty, env)
            if op in ('trunc', 'zext'):
                fty = parse_type(t2)
                if self.resolve(fty)[0] != 'int' or self.resolve(fty)[1] < 4:
                    return None
                return lowbits(parse_const(t2, fty), depth + 1)
            if op in ('or', 'and', 'xor'):
                ty = parse_type(t2)
                x = parse_const(t2, ty)
                t2.expect(',')
                y = parse_const(t2, ty)
                lx = lowbits(x, depth + 1)
                ly = lowbits(y, depth + 1)
                if lx is None or ly is None:
                    return None
                if x[0] == 'int' and y[0] == 'int':
                    return None
                return "(%s %s %s)" % (lx, {'or': '|', 'and': '&', 'xor': '^'}[op], ly)
            return None

        def env(local):
            if local not in vtypes:
                raise Unsupported("use of undefined local %s in @%s" % (local, fn))
            return vn(local)

        def val(ts, ty):
            c = parse_const(ts, ty)
            return self.const_expr(c, ty, env)

        def tval(ts):
            ty = parse_type(ts)
            skip_attrs(ts)
            return ty, val(ts, ty)

        static_ptrs = set()

        def is_static(c):
            """pointer value that is a link-time constant address (alloca site = static object, global)"""
            if c[0] == 'local':
                return c[1] in static_ptrs
            if c[0] == 'global':
                return True
            if c[0] == 'cexpr' and c[1] == 'gep':
                return is_static(c[4]) and all(iv[0] == 'int' for (_, iv) in c[5])
            if c[0] == 'cexpr' and c[1] == 'cast' and c[2] == 'bitcast':
                return is_static(c[4])
            return False

        def tptr(ts):
            """typed pointer operand -> (type, C expr, is_static)"""
            ty = parse_type(ts)
            skip_attrs(ts)
            c = parse_const(ts, ty)
            return ty, self.const_expr(c, ty, env), is_static(c)

        # collect phis: block -> list of (dest, ty, {pred: value expr-thunk})
        phis = {}
        for (lab, pl) in parsed:
            lst = []
            for (dest, toks, text) in pl:
                if toks and toks[0][1] == 'phi':
                    ts = ts_of(toks, text)
                    ts.next()
                    ty = parse_type(ts)
                    inc = {}
                    while True:
                        ts.expect('[')
                        c = parse_const(ts, ty)
                        ts.expect(',')
                        pl_ = ts.next()[1]
                        ts.expect(']')
                        inc[pl_[1:].strip('"')] = c
                        if not ts.accept(','):
                            break
                    lst.append((dest, ty, inc))
            phis[lab] = lst

        def edge(pred, succ, indent):
            """C statements for taking the edge pred->succ"""
            lst = phis.get(succ)
            if succ not in labels:
                raise Unsupported("branch to unknown label %s" % succ)
            o = []
            if lst:
                tmp = []
                for i, (dest, ty, inc) in enumerate(lst):
                    if pred not in inc:
                        raise Unsupported("phi without incoming value for pred %s" % pred)
                    tmp.append("%s ir_t%d = %s;" % (self.val_ctype(ty), i, self.const_expr(inc[pred], ty, env)))
                for i, (dest, ty, inc) in enumerate(lst):
                    tmp.append("%s = ir_t%d;" % (vn(dest), i))
                o.append(indent + "{ " + " ".join(tmp) + " }")
            if succ in loop_heads and border[pred] < border[succ]:
                o.append(indent + "goto LP_%s;" % labels[succ][2:])
            else:
                o.append(indent + "goto %s;" % labels[succ])
            return o

        calls = set()
        allocas = []
        for (lab, pl) in parsed:
            if lab in loop_heads:
                out.append("LP_%s: ir_pre_ = 0;" % labels[lab][2:])
            out.append("%s: ;" % labels[lab])
            for (dest, toks, text) in pl:
                self.ninstr += 1
                ts = ts_of(toks, text)
                k, op = ts.next()
                ind = "  "
                d = vn(dest) if dest else None
                if op == 'phi':
                    continue
                if op in BIN_OPS:
                    while ts.peek()[1] in BIN_FLAGS:
                        ts.next()
                    ty = parse_type(ts)
                    ca = parse_const(ts, ty)
                    ts.expect(',')
                    cb = parse_const(ts, ty)
                    a = self.const_expr(ca, ty, env)
                    b = self.const_expr(cb, ty, env)
                    if op == 'and':
                        # alignment test on an address: (ptrtoint p) & C with 0 <= C < 16.  Emitted through
                        # IR_PTR_LOWBITS so that CBMC (whose pointer->integer model is object|offset, i.e.
                        # object bases aligned) can constant-fold it from the offset; natively the raw address.
                        for (cx, cy) in ((ca, cb), (cb, ca)):
                            if cy[0] == 'int' and 0 <= cy[1] < 16 and cx[0] == 'local':
                                lb = lowbits(cx)
                                if lb is not None:
                                    a = "((%s)%s)" % (self.int_ctype(self.resolve(ty)[1]), lb)
                                    b = self.int_lit(cy[1], self.resolve(ty)[1])
                                    break
                    site = self.new_site(fn, 'div', text) if op in ('udiv', 'sdiv', 'urem', 'srem') else None
                    e, pre = self.bin_expr(op, ty, a, b, site)
                    if pre:
                        out.append(ind + pre)
                    out.append(ind + "%s = %s;" % (d, e))
                elif op == 'icmp':
                    pred = ts.next()[1]
                    ty = parse_type(ts)
                    a = val(ts, ty)
                    ts.expect(',')
                    b = val(ts, ty)
                    out.append(ind + "%s = %s;" % (d, self.icmp_expr(pred, ty, a, b)))
                elif op in CAST_OPS:
                    fty = parse_type(ts)
                    c_ = parse_const(ts, fty)
                    if op == 'bitcast' and is_static(c_):
                        static_ptrs.add(dest)
                    v = self.const_expr(c_, fty, env)
                    ts.expect('to')
                    tty = parse_type(ts)
                    out.append(ind + "%s = %s;" % (d, self.cast_expr(op, fty, v, tty)))
                elif op == 'freeze':
                    ty, v = tval(ts)
                    out.append(ind + "%s = %s;" % (d, v))
                elif op == 'select':
                    tc, c = tval(ts)
                    if self.resolve(tc) != I1:
                        raise Unsupported("vector select")
                    ts.expect(',')
                    t1, a = tval(ts)
                    ts.expect(',')
                    t2, b = tval(ts)
                    out.append(ind + "%s = (%s) ? %s : %s;" % (d, c, a, b))
                elif op == 'alloca':
                    ts.accept('inalloca')
                    ty = parse_type(ts)
                    al = None
                    cnt = None
                    while ts.accept(','):
                        if ts.accept('align'):
                            al = int(ts.next()[1])
                        else:
                            cty = parse_type(ts)
                            cc = parse_const(ts, cty)
                            if cc[0] != 'int':
                                raise Unsupported("dynamic alloca in @" + fn)
                            cnt = cc[1]
                    if cnt is not None and cnt != 1:
                        ty = ('arr', cnt, ty)
                    an = "%s%s_a%s" % (self.px, cname(fn), cname(dest[1:]))
                    allocas.append("static %s __attribute__((aligned(%d)));" % (self.decl(ty, an), max(al or 1, self.alignof(ty))))
                    out.append(ind + "%s = (unsigned char *)&%s;" % (d, an))
                    static_ptrs.add(dest)
                elif op == 'load':
                    if ts.accept('atomic'):
                        raise Unsupported("atomic load")
                    ts.accept('volatile')
                    ty = parse_type(ts)
                    ts.expect(',')
                    pty, p, st = tptr(ts)
                    rt = self.resolve(ty)
                    if rt[0] == 'int' and rt[1] not in (8, 16, 32, 64, 128):
                        raise Unsupported("load of i%d" % rt[1])
                    if rt[0] not in ('int', 'ptr'):
                        raise Unsupported("load of %r" % (rt[0],))
                    if st:
                        self.elided += 1
                    else:
                        site = self.new_site(fn, 'load', text)
                        out.append(ind + "OBS_ADDR(%d, %s);" % (site, p))
                    out.append(ind + "%s = IR_LOAD(%s, %s);" % (d, self.val_ctype(ty), p))
                elif op == 'store':
                    if ts.accept('atomic'):
                        raise Unsupported("atomic store")
                    ts.accept('volatile')
                    ty, v = tval(ts)
                    ts.expect(',')
                    pty, p, st = tptr(ts)
                    rt = self.resolve(ty)
                    if rt[0] == 'int' and rt[1] not in (8, 16, 32, 64, 128):
                        raise Unsupported("store of i%d" % rt[1])
                    if rt[0] not in ('int', 'ptr'):
                        raise Unsupported("store of %r" % (rt[0],))
                    if st:
                        self.elided += 1
                    else:
                        site = self.new_site(fn, 'store', text)
                        out.append(ind + "OBS_ADDR(%d, %s);" % (site, p))
                    out.append(ind + "IR_STORE(%s, %s, %s);" % (self.val_ctype(ty), p, v))
                elif op == 'getelementptr':
                    ts.accept('inbounds')
                    sty = parse_type(ts)
                    ts.expect(',')
                    pty = parse_type(ts)
                    if self.resolve(pty)[0] != 'ptr':
                        raise Unsupported("vector GEP")
                    bc_ = parse_const(ts, pty)
                    base = self.const_expr(bc_, pty, env)
                    idx = []
                    allc = True
                    while ts.accept(','):
                        ity = parse_type(ts)
                        iv = parse_const(ts, ity)
                        if iv[0] != 'int':
                            allc = False
                        idx.append((ity, self.idx_operand(ity, iv, env)))
                    if allc and is_static(bc_):
                        static_ptrs.add(dest)
                    off = self.gep_offset(sty, idx)
                    if self.is_fnptr(vtypes[dest]):
                        raise Unsupported("GEP producing a function pointer")
                    out.append(ind + "%s = (unsigned char *)(%s) + %s;" % (d, base, off))
                elif op == 'extractvalue':
                    ty = parse_type(ts)
                    v = val(ts, ty)
                    ts.expect(',')
                    i0 = int(ts.next()[1])
                    if not ts.eof():
                        raise Unsupported("nested extractvalue")
                    out.append(ind + "%s = (%s).f%d;" % (d, v, i0))
                elif op == 'insertvalue':
                    ty = parse_type(ts)
                    agg = parse_const(ts, ty)
                    ts.expect(',')
                    ety, ev = tval(ts)
                    ts.expect(',')
                    i0 = int(ts.next()[1])
                    if not ts.eof():
                        raise Unsupported("nested insertvalue")
                    if agg[0] in ('undef', 'zero'):
                        out.append(ind + "__builtin_memset(&%s, 0, sizeof %s);" % (d, d))
                    else:
                        out.append(ind + "%s = %s;" % (d, self.const_expr(agg, ty, env)))
                    out.append(ind + "%s.f%d = %s;" % (d, i0, ev))
                elif op in ('call', 'tail', 'musttail', 'notail'):
                    if op != 'call':
                        ts.expect('call')
                    out += self.emit_call(fn, ts, d, dest, vtypes, env, text, calls)
                elif op == 'br':
                    if ts.accept('label'):
                        tgt = ts.next()[1][1:].strip('"')
                        out += edge(lab, tgt, ind)
                    else:
                        ty, c = tval(ts)
                        ts.expect(',')
                        ts.expect('label')
                        t1 = ts.next()[1][1:].strip('"')
                        ts.expect(',')
                        ts.expect('label')
                        t2 = ts.next()[1][1:].strip('"')
                        site = self.new_site(fn, 'br', text)
                        # the observation is made in the arm taken, as a constant: same log content, but
                        # concrete per path when the checker explores paths separately
                        out.append(ind + "if (%s) {" % c)
                        out.append(ind + "  OBS_BR(%d, 1);" % site)
                        out += edge(lab, t1, ind + "  ")
                        out.append(ind + "} else {")
                        out.append(ind + "  OBS_BR(%d, 0);" % site)
                        out += edge(lab, t2, ind + "  ")
                        out.append(ind + "}")
                elif op == 'switch':
                    ty, v = tval(ts)
                    w = self.resolve(ty)[1]
                    ts.expect(',')
                    ts.expect('label')
                    dflt = ts.next()[1][1:].strip('"')
                    ts.expect('[')
                    cases = []
                    while not ts.accept(']'):
                        cty = parse_type(ts)
                        cv = parse_const(ts, cty)
                        ts.expect(',')
                        ts.expect('label')
                        cl = ts.next()[1][1:].strip('"')
                        cases.append((cv[1], cl))
                    site = self.new_site(fn, 'switch', text)
                    out.append(ind + "switch (%s) {" % v)
                    for (cv, cl) in cases:
                        out.append(ind + "case %s: {" % self.int_lit(cv, w))
                        out.append(ind + "    OBS_BR(%d, %s);" % (site, self.int_lit(cv, w)))
                        out += edge(lab, cl, ind + "    ")
                        out.append(ind + "  }")
                    out.append(ind + "default: {")
                    out.append(ind + "    OBS_BR(%d, %s);" % (site, v))
                    out += edge(lab, dflt, ind + "    ")
                    out.append(ind + "  }")
                    out.append(ind + "}")
                elif op == 'ret':
                    if ts.accept('void'):
                        out.append(ind + "return;")
                    else:
                        ty, v = tval(ts)
                        out.append(ind + "return %s;" % v)
                elif op == 'unreachable':
                    out.append(ind + "IR_UNREACHABLE();")
                else:
                    raise Unsupported("instruction '%s' in @%s: %s" % (op, fn, text[:100]))
        # declarations of SSA locals
        decls = []
        pnames = set(pn if pn is not None else None for (_, pn) in f.params)
        pcount = 0
        plocals = set()
        for (pt, pn) in f.params:
            if pn is None:
                pn = "%%%d" % pcount
            if re.match(r'^%\d+$', pn):
                pcount = int(pn[1:]) + 1
            plocals.add(pn)
        for (lab, pl) in parsed:
            for (dest, toks, text) in pl:
                if dest is not None and dest not in plocals:
                    decls.append("  %s;" % self.decl_local(vtypes[dest], vn(dest)))
        ret = 'void' if f.ret == VOID else self.val_ctype(f.ret)
        head = "%s %s(%s)" % (ret, self.fname(fn), ", ".join(cparams) if cparams else "void")
        if loop_heads:
            decls.append("  int ir_pre_;")
        body = "\n".join(allocas) + ("\n" if allocas else "") + head + "\n{\n" + "\n".join(decls) + "\n" + "\n".join(out) + "\n}\n"
        return head, body, calls

    def decl_local(self, ty, name):
        t = self.resolve(ty)
        if t[0] == 'struct':
            return "struct %s %s" % (self.struct_cname(ty), name)
        return "%s %s" % (self.val_ctype(ty), name)

    def result_type(self, toks, text, vtypes):
        ts = TS(toks, text)
        k, op = ts.next()
        if op in BIN_OPS:
            while ts.peek()[1] in BIN_FLAGS:
                ts.next()
            return parse_type(ts)
        if op == 'icmp':
            ts.next()
            t = parse_type(ts)
            if self.resolve(t)[0] == 'vec':
                raise Unsupported("vector icmp")
            return I1
        if op in CAST_OPS:
            i = len(toks) - 1
            # type after the last 'to'
            for j in range(len(toks) - 1, -1, -1):
                if toks[j] == ('word', 'to'):
                    return parse_type(TS(toks[j + 1:], text))
            raise Unsupported("cast without 'to'")
        if op in ('phi', 'freeze', 'load'):
            if op == 'load':
                ts.accept('atomic')
                ts.accept('volatile')
            return parse_type(ts)
        if op == 'select':
            parse_type(ts)
            skip_attrs(ts)
            # skip the condition value
            self.skip_value(ts)
            ts.expect(',')
            return parse_type(ts)
        if op == 'alloca':
            ts.accept('inalloca')
            return ('ptr', parse_type(ts))
        if op == 'getelementptr':
            ts.accept('inbounds')
            sty = parse_type(ts)
            ts.expect(',')
            pty = parse_type(ts)
            self.skip_value(ts)
            cur = sty
            first = True
            while ts.accept(','):
                ity = parse_type(ts)
                iv = parse_const(ts, ity)
                if first:
                    first = False
                    continue
                ct = self.resolve(cur)
                if ct[0] == 'struct':
                    if iv[0] != 'int':
                        raise Unsupported("non-constant struct index")
                    cur = ct[1][iv[1]]
                elif ct[0] == 'arr':
                    cur = ct[2]
                else:
                    raise Unsupported("GEP into %r" % (ct[0],))
            return ('ptr', cur)
        if op == 'extractvalue':
            ty = parse_type(ts)
            self.skip_value(ts)
            ts.expect(',')
            i0 = int(ts.next()[1])
            t = self.resolve(ty)
            if t[0] != 'struct':
                raise Unsupported("extractvalue from %r" % (t[0],))
            return t[1][i0]
        if op == 'insertvalue':
            return parse_type(ts)
        if op in ('call', 'tail', 'musttail', 'notail'):
            if op != 'call':
                ts.expect('call')
            skip_attrs(ts, extra=FASTMATH)
            t = parse_type(ts)
            t = self.resolve(t)
            if t[0] == 'func':
                return t[1]
            if t[0] == 'ptr' and self.resolve(t[1])[0] == 'func':
                return self.resolve(t[1])[1]
            return t
        raise Unsupported("instruction '%s': %s" % (op, text[:100]))

    def skip_value(self, ts):
        k, v = ts.next()
        if k in ('local', 'glob', 'num'):
            return
        if k == 'word' and v in ('true', 'false', 'null', 'undef', 'poison', 'zeroinitializer'):
            return
        if k == 'word' and ts.at('('):
            depth = 0
            while True:
                x = ts.next()[1]
                if x == '(':
                    depth += 1
                elif x == ')':
                    depth -= 1
                    if depth == 0:
                        return
        if k == 'word' and v in ('getelementptr',):
            ts.accept('inbounds')
            return self.skip_value_paren(ts)
        raise Unsupported("cannot skip value %r" % v)

    def skip_value_paren(self, ts):
        depth = 0
        while True:
            x = ts.next()[1]
            if x == '(':
                depth += 1
            elif x == ')':
                depth -= 1
                if depth == 0:
                    return

    # ---- typed block copy ---------------------------------------------
    def pointee_hint(self, c, defs):
        """IR type T if pointer constant/local c is (a bitcast of) a T* ; else None"""
        if c is None:
            return None
        if c[0] == 'local' and c[1] in defs:
            toks, text = defs[c[1]]
            if toks[0][1] == 'bitcast':
                t2 = TS(toks[1:], text)
                fty = self.resolve(parse_type(t2))
                if fty[0] == 'ptr':
                    return fty[1]
        if c[0] == 'cexpr' and c[1] == 'cast' and c[2] == 'bitcast':
            fty = self.resolve(c[3])
            if fty[0] == 'ptr':
                return fty[1]
        return None

    def leaves(self, t, base=0):
        """[(offset, ('scalar', ctype, size) | ('bytes', n))] of IR type t"""
        t0 = t
        t = self.resolve(t)
        if t[0] in ('int', 'ptr'):
            return [(base, ('scalar', self.val_ctype(t), self.sizeof(t)))]
        if t[0] == 'arr':
            et = self.resolve(t[2])
            es = self.sizeof(et)
            if et[0] == 'int':
                return [(base, ('array', self.val_ctype(et), es, t[1]))]
            out = []
            for i in range(t[1]):
                out += self.leaves(t[2], base + i * es)
            return out
        if t[0] == 'struct':
            offs, _ = self.struct_layout(t)
            out = []
            for e, o in zip(t[1], offs):
                out += self.leaves(e, base + o)
            return out
        raise Unsupported("typed copy of %r" % (t[0],))

    def has_pointer_leaf(self, t):
        try:
            return any(l[1][0] == 'scalar' and '*' in l[1][1] or (l[1][0] == 'scalar' and l[1][1].startswith(self.px + 'fp')) for l in self.leaves(t))
        except Unsupported:
            return False

    def copy_helper(self, t):
        key = repr(self.resolve(t))
        if key in self.copy_helpers:
            return self.copy_helpers[key][0]
        nm = "%scopy%d" % (self.px, len(self.copy_helpers))
        body = []
        covered = 0
        for (o, l) in self.leaves(t):
            if l[0] == 'scalar':
                body.append("  IR_STORE(%s, d + %d, IR_LOAD(%s, s + %d));" % (l[1], o, l[1], o))
            else:
                if l[3] > 2048:
                    raise Unsupported("typed copy of an array of %d elements" % l[3])
                for i in range(l[3]):   # unrolled: no loop bound to configure
                    body.append("  IR_STORE(%s, d + %d, IR_LOAD(%s, s + %d));" % (l[1], o + i * l[2], l[1], o + i * l[2]))
        # padding bytes are not copied (unspecified values)
        code = "static void %s(unsigned char *d, unsigned char *s)\n{\n%s\n}\n" % (nm, "\n".join(body))
        self.copy_helpers[key] = (nm, code)
        return nm

    # ---- calls --------------------------------------------------------
    def emit_call(self, fn, ts, d, dest, vtypes, env, text, calls):
        ind = "  "
        skip_attrs(ts, extra=FASTMATH)
        rty = parse_type(ts)
        rr = self.resolve(rty)
        fty = None
        if rr[0] == 'func':
            fty = rr
            rty = rr[1]
        elif rr[0] == 'ptr' and self.resolve(rr[1])[0] == 'func':
            fty = self.resolve(rr[1])
            rty = fty[1]
        k, cv = ts.peek()
        callee = None
        callee_expr = None
        if k == 'glob':
            ts.next()
            callee = cv[1:].strip('"')
        elif k == 'local':
            ts.next()
            callee_expr = env(cv)
        elif k == 'word' and cv == 'asm':
            raise Unsupported("inline asm in @" + fn)
        else:
            # constant expression callee (bitcast of a function)
            c = parse_const(ts, ('ptr', fty if fty else ('func', rty, (), False)))
            callee_expr = None
            callee = None
            cexpr_c = c
        ts.expect('(')
        args = []
        if not ts.accept(')'):
            while True:
                aty = parse_type(ts)
                fl = skip_attrs(ts)
                if 'byval' in fl or 'inalloca' in fl:
                    raise Unsupported("byval argument in @" + fn)
                if aty == ('metadata',):
                    # llvm.dbg.* etc
                    depth = 0
                    while not (depth == 0 and (ts.at(',') or ts.at(')'))):
                        x = ts.next()[1]
                        if x in '([{':
                            depth += 1
                        elif x in ')]}':
                            depth -= 1
                    args.append((aty, None, None))
                else:
                    c = parse_const(ts, aty)
                    args.append((aty, self.const_expr(c, aty, env), c))
                if ts.accept(')'):
                    break
                ts.expect(',')
        out = []
        if callee is not None and callee.startswith('llvm.memcpy.') and args[2][2][0] == 'int':
            # block copy of a whole typed object that contains pointers: copy field by field with the
            # field types of the IR pointee type (a byte loop would tear pointers apart, which CBMC
            # cannot track); the observation is the same (dst, src, len)
            n = args[2][2][1]
            for k in (0, 1):
                T = self.pointee_hint(args[k][2], self.cur_defs)
                if T is not None and self.sizeof(T) == n and self.has_pointer_leaf(T):
                    site = self.new_site(fn, 'memcpy', text)
                    return ["  IR_COPY_TYPED(%d, %s, %s, %s, %d);" % (site, self.copy_helper(T), args[0][1], args[1][1], n)]
        args = [(a[0], a[1]) for a in args]
        if callee is not None and callee.startswith('llvm.'):
            return self.emit_intrinsic(fn, callee, rty, args, d, text)
        if callee is not None and callee in LIBC_MEM:
            return self.emit_libc(fn, callee, rty, args, d, text)
        if fty is not None and fty[3]:
            raise Unsupported("call of variadic function in @" + fn)
        argl = ", ".join(a for (_, a) in args)
        if callee is not None:
            if callee not in self.m.funcs:
                raise Unsupported("call to unknown function @" + callee)
            tf = self.m.funcs[callee]
            if tf.vararg:
                raise Unsupported("call to variadic @" + callee)
            if len(tf.params) != len(args):
                raise Unsupported("call arity mismatch for @" + callee)
            self.ref_global(callee)
            calls.add(callee)
            ce = self.fname(callee)
        else:
            if callee_expr is None:
                ft = ('ptr', fty if fty else ('func', rty, tuple(a for (a, _) in args), False))
                callee_expr = self.const_expr(cexpr_c, ft, env)
            site = self.new_site(fn, 'icall', text)
            out.append(ind + "OBS_CALL(%d, %s);" % (site, callee_expr))
            fpt = self.fp_typedef(('func', rty, tuple(a for (a, _) in args), False))
            ce = "((%s)(%s))" % (fpt, callee_expr)
            calls.add(None)
        if self.resolve(rty) == VOID or d is None:
            out.append(ind + "%s(%s);" % (ce, argl))
        else:
            out.append(ind + "%s = %s(%s);" % (d, ce, argl))
        return out

    def emit_libc(self, fn, callee, rty, args, d, text):
        ind = "  "
        site = self.new_site(fn, 'libc:' + callee, text)
        a = [x for (_, x) in args]
        call = "IR_%s(%d, %s)" % (callee.upper(), site, ", ".join(a))
        if d is not None:
            return [ind + "%s = %s;" % (d, call)]
        return [ind + call + ";"]

    def emit_intrinsic(self, fn, name, rty, args, d, text):
        ind = "  "
        a = [x for (_, x) in args]
        for drop in ('llvm.lifetime.', 'llvm.dbg.', 'llvm.assume', 'llvm.experimental.noalias', 'llvm.invariant.',
                     'llvm.donothing', 'llvm.prefetch', 'llvm.var.annotation'):
            if name.startswith(drop):
                return []
        m = re.match(r'^llvm\.(memcpy|memmove|memset)\.', name)
        if m:
            site = self.new_site(fn, m.group(1), text)
            if m.group(1) == 'memset':
                return [ind + "IR_MEMSET(%d, %s, %s, %s);" % (site, a[0], a[1], a[2])]
            return [ind + "IR_%s(%d, %s, %s, %s);" % (m.group(1).upper(), site, a[0], a[1], a[2])]
        m = re.match(r'^llvm\.(fshl|fshr|bswap|bitreverse|ctlz|cttz|ctpop|umin|umax|smin|smax|abs|umul\.with\.overflow|uadd\.with\.overflow|usub\.with\.overflow|smul\.with\.overflow|sadd\.with\.overflow|ssub\.with\.overflow|uadd\.sat|usub\.sat)\.i(\d+)$', name)
        if m:
            opn, w = m.group(1), int(m.group(2))
            if w not in (8, 16, 32, 64):
                raise Unsupported("intrinsic %s" % name)
            ct = self.int_ctype(w)
            if opn in ('fshl', 'fshr'):
                x, y, s = a
                sh = "((unsigned)(%s) & %d)" % (s, w - 1)
                ut = self.unsigned_wtype(w)
                if opn == 'fshl':
                    e = "(%s)(%s ? (((%s)(%s) << %s) | ((%s)(%s) >> (%d - %s))) : (%s)(%s))" % (ct, sh, ut, x, sh, ut, y, w, sh, ut, x)
                else:
                    e = "(%s)(%s ? (((%s)(%s) << (%d - %s)) | ((%s)(%s) >> %s)) : (%s)(%s))" % (ct, sh, ut, x, w, sh, ut, y, sh, ut, y)
                return [ind + "%s = %s;" % (d, e)]
            if opn == 'bswap':
                return [ind + "%s = ir_bswap%d(%s);" % (d, w, a[0])]
            if opn == 'bitreverse':
                return [ind + "%s = (%s)ir_bitreverse((uint64_t)%s, %d);" % (d, ct, a[0], w)]
            if opn in ('ctlz', 'cttz', 'ctpop'):
                return [ind + "%s = (%s)ir_%s(%s, %d);" % (d, ct, opn, "(uint64_t)" + a[0], w)]
            if opn in ('umin', 'umax'):
                o = '<' if opn == 'umin' else '>'
                return [ind + "%s = ((%s) %s (%s)) ? (%s) : (%s);" % (d, a[0], o, a[1], a[0], a[1])]
            if opn in ('smin', 'smax'):
                o = '<' if opn == 'smin' else '>'
                return [ind + "%s = (%s %s %s) ? (%s) : (%s);" % (d, self.signed_of(a[0], w), o, self.signed_of(a[1], w), a[0], a[1])]
            if opn == 'abs':
                return [ind + "%s = (%s < 0) ? (%s)(0 - (%s)(%s)) : (%s);" % (d, self.signed_of(a[0], w), ct, self.unsigned_wtype(w), a[0], a[0])]
            if opn in ('umul.with.overflow', 'uadd.with.overflow', 'usub.with.overflow'):
                st = self.val_ctype(rty)
                big = 'ir_u128' if w == 64 else 'uint64_t'
                o = {'umul.with.overflow': '*', 'uadd.with.overflow': '+', 'usub.with.overflow': '-'}[opn]
                return [ind + "{ %s ir_w = (%s)(%s) %s (%s)(%s); %s.f0 = (%s)ir_w; %s.f1 = (uint8_t)((ir_w >> %d) != 0); }" % (big, big, a[0], o, big, a[1], d, ct, d, w)]
            if opn in ('uadd.sat',):
                ut = self.unsigned_wtype(w)
                return [ind + "{ %s ir_w = (%s)((%s)(%s) + (%s)(%s)); %s = (ir_w < (%s)) ? (%s)~(%s)0 : ir_w; }" % (ct, ct, ut, a[0], ut, a[1], d, a[0], ct, ct)]
            if opn in ('usub.sat',):
                return [ind + "%s = ((%s) > (%s)) ? (%s)((%s) - (%s)) : (%s)0;" % (d, a[0], a[1], ct, a[0], a[1], ct)]
        if name == 'llvm.trap':
            return [ind + "IR_UNREACHABLE();"]
        raise Unsupported("intrinsic @%s in @%s" % (name, fn))

    # ---- driver -------------------------------------------------------
    def translate(self, entries):
        self.need_funcs = set()
        self.need_globals = set()
        self.work = []
        for e in entries:
            if e in self.m.globals and not self.m.globals[e].external:
                self.ref_global(e)     # a data root (e.g. a vtable the harness points to)
                continue
            if e not in self.m.funcs or self.m.funcs[e].blocks is None:
                raise Unsupported("entry point @%s not defined in the IR" % e)
            self.ref_global(e)
        fbodies = {}
        protos = {}
        gdefs = {}
        callgraph = {}
        externs = []
        extern_globals = []
        while self.work:
            kind, name = self.work.pop()
            if kind == 'f':
                f = self.m.funcs[name]
                if f.blocks is None or name in self.stubs:
                    if name.startswith('llvm.') or name in LIBC_MEM:
                        continue
                    if f.vararg:
                        raise Unsupported("reference to external variadic function @" + name)
                    ret = 'void' if f.ret == VOID else self.val_ctype(f.ret)
                    ps = [self.val_ctype(pt) for (pt, _) in f.params]
                    proto = "%s %s(%s)" % (ret, self.fname(name), ", ".join(ps) if ps else "void")
                    protos[name] = proto
                    externs.append((self.fname(name), proto))
                    continue
                head, body, calls = self.translate_function(f)
                protos[name] = head
                fbodies[name] = body
                callgraph[name] = calls
            else:
                g = self.m.globals[name]
                if g.ty is None:
                    raise Unsupported("alias @" + name)
                if g.external:
                    extern_globals.append((self.gname(name), "extern %s%s;" % ("const " if g.const else "", self.decl(g.ty, self.gname(name)))))
                    gdefs[name] = None
                    continue
                ity = g.ty
                init = self.init_expr(ity, g.init)
                al = max(g.align or 1, self.alignof(ity))
                gdefs[name] = "%s%s __attribute__((aligned(%d))) = %s;" % ("const " if g.const else "", self.decl(ity, self.gname(name)), al, init)
        # recursion check (direct call graph)
        color = {}

        def dfs(u, stack):
            color[u] = 1
            for v in callgraph.get(u, ()):
                if v is None or v not in callgraph:
                    continue
                if color.get(v) == 1:
                    raise Unsupported("recursion: @%s -> @%s (allocas are per-site static objects)" % (u, v))
                if v not in color:
                    dfs(v, stack)
            color[u] = 2
        for u in list(callgraph):
            if u not in color:
                dfs(u, [])
        o = []
        o.append("/* generated by encoders/ir2c.py -- do not edit */")
        for nm in self.struct_names.values():
            o.append("struct %s;" % nm)
        o += self.fp_defs
        o += self.struct_defs_sorted()
        o += self.static_asserts
        for name in sorted(protos):
            o.append(protos[name] + ";")
        for name in sorted(gdefs):
            g = self.m.globals[name]
            o.append("extern %s%s;" % ("const " if g.const else "", self.decl(g.ty, self.gname(name))))
        for name in sorted(gdefs):
            if gdefs[name] is not None:
                o.append(gdefs[name])
        for key in self.copy_helpers:
            o.append(self.copy_helpers[key][1])
        for name in sorted(fbodies):
            o.append(fbodies[name])
        r = Result()
        r.c_text = "\n".join(o) + "\n"
        r.externs = externs
        r.extern_globals = extern_globals
        r.sites = self.sites
        r.funcs = sorted(fbodies)
        r.ninstr = self.ninstr
        r.elided = self.elided
        return r

    def struct_defs_sorted(self):
        # struct_cname emits a struct only after the structs of its by-value members
        # (decl() of members is evaluated before the definition is appended), so
        # the list is already in dependency order; typedefs of function pointers
        # only mention 'unsigned char *' and integer types or struct values.
        return list(self.struct_defs)


FASTMATH = {'fast', 'nnan', 'ninf', 'nsz', 'arcp', 'contract', 'afn', 'reassoc'}
LIBC_MEM = {'memcpy', 'memmove', 'memset', 'memcmp', 'bcmp', 'strlen'}


def translate(ir_text, entries, prefix="ir_", site_base=0):
    if re.search(r'<\d+ x (i\d+|float|double|i\d+\*)>', ir_text) and False:
        pass
    mod = Module(ir_text)
    tr = Translator(mod, prefix, site_base)
    return tr.translate(entries)


def main():
    import argparse
    ap = argparse.ArgumentParser()
    ap.add_argument("ll")
    ap.add_argument("entries", nargs="+")
    ap.add_argument("-o", default="-")
    ap.add_argument("--sites")
    a = ap.parse_args()
    try:
        r = translate(open(a.ll).read(), a.entries)
    except Unsupported as e:
        print("UNSUPPORTED: %s" % e, file=sys.stderr)
        return 3
    if a.o == "-":
        sys.stdout.write(r.c_text)
    else:
        open(a.o, "w").write(r.c_text)
    if a.sites:
        json.dump(r.sites, open(a.sites, "w"), indent=0)
    print("functions: %s\nexterns: %s\nextern globals: %s\nIR instructions: %d, sites: %d" %
          (" ".join(r.funcs), [x[0] for x in r.externs], [x[0] for x in r.extern_globals], r.ninstr, len(r.sites)), file=sys.stderr)
    return 0


if __name__ == "__main__":
    sys.exit(main())
