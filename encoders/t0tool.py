#!/usr/bin/env python3
"""
t0tool -- encoders E2 (T0 native extractor) and E4 (T0 stack-effect system)
of DESIGN.md, for the seven T0Comp-generated files of bearssl-esp8266.

Everything is regenerated from the current tree ($VERIF_REPO, default /repo);
results of expensive steps are cached under /verif/build/t0tool keyed by the
content hash of everything they depend on.

Python API (import t0tool):

  PROGRAMS                      {key: repo-relative path}   key in pkey skey x509dec x509min pem hsc hss
  load(key, repo=None) -> T0Program
      .code .data .caddr .interp .entries .ctx_type .eng_based .ndp .nrp
      .natives   {opcode: Native(op, name, cname, body, line)}
      .words     {addr: Word(addr, lnum, ins=[Ins(ip, kind, arg, nxt, expr)], slots)}
      .const_words {addr: (value, expr)}   words that are  "const v ; ret"
      .callgraph() .recursive_words() .call_sites(op) .native_by_name(name)
  layout(prog) -> [Field(path, off, size)]          leaf fields of the context struct (clang layout + gcc probe)
  extract_natives(prog, outdir=None) -> path of generated C file (E2 output)
  gen_dir(prog) -> directory with t0n_<key>.c, t0n_<key>_fields.h, t0n_<key>_ops.h
  native_effects(prog, jobs=4) -> {opcode: Effect}   proved with CBMC on the E2 functions
  stack_system(prog, effects, resume_after_fail=False) -> dict (z3 verdicts, maxima)
  operand_sites(prog, opcode, nargs) -> abstract operands at every call site of a native
  validate(prog, jobs) -> dict(natives, exercised, agreeing, disagreeing=[...])   translation validation of E2

CLI:  t0tool.py {dump|dis|natives|layout|gen|effects|stack|sites|validate} <key|all> [...]
"""
import sys, os, re, json, hashlib, subprocess, tempfile, shutil, time, glob
from collections import namedtuple, OrderedDict

HERE = os.path.dirname(os.path.abspath(__file__))
ROOT = os.path.dirname(HERE)
BUILD = os.path.join(ROOT, "build", "t0tool")

PROGRAMS = OrderedDict([
    ("pkey", "src/x509/pkey_decoder.c"),
    ("skey", "src/x509/skey_decoder.c"),
    ("x509dec", "src/x509/x509_decoder.c"),
    ("x509min", "src/x509/x509_minimal.c"),
    ("pem", "src/codec/pemdec.c"),
    ("hsc", "src/ssl/ssl_hs_client.c"),
    ("hss", "src/ssl/ssl_hs_server.c"),
])

BUILTIN = {0: "ret", 1: "const", 2: "getl", 3: "putl", 4: "jmp", 5: "jif", 6: "jifnot"}

Native = namedtuple("Native", "op name cname body line")
Ins = namedtuple("Ins", "ip kind arg nxt expr")
Field = namedtuple("Field", "path off size kind count")


def repo_dir(repo=None):
    return repo or os.environ.get("VERIF_REPO", "/repo")


def repo_defs(repo):
    out = []
    try:
        for line in open(os.path.join(repo, "conf", "Unix.mk")):
            m = re.match(r"\s*CFLAGS\s*=\s*(.*)", line)
            if m:
                out = [t for t in m.group(1).split() if t.startswith("-D")]
    except OSError:
        pass
    return out


def sh(cmd, timeout=600, cwd=None, env=None):
    p = subprocess.run(cmd, stdout=subprocess.PIPE, stderr=subprocess.PIPE, timeout=timeout, cwd=cwd, env=env)
    return p.returncode, p.stdout.decode("utf-8", "replace"), p.stderr.decode("utf-8", "replace")


def headers_hash(repo):
    h = hashlib.sha1()
    for f in sorted(glob.glob(os.path.join(repo, "inc", "*.h")) + glob.glob(os.path.join(repo, "src", "*.h"))):
        h.update(f.encode())
        h.update(open(f, "rb").read())
    h.update(" ".join(repo_defs(repo)).encode())
    return h.hexdigest()


_hh_cache = {}


def hh(repo):
    if repo not in _hh_cache:
        _hh_cache[repo] = headers_hash(repo)
    return _hh_cache[repo]


def skip_c(text, i):
    """if text[i] starts a comment / string / char literal, return index after it, else i"""
    if text.startswith("/*", i):
        j = text.find("*/", i + 2)
        return len(text) if j < 0 else j + 2
    if text.startswith("//", i):
        j = text.find("\n", i)
        return len(text) if j < 0 else j
    if text[i] in "\"'":
        q = text[i]
        j = i + 1
        while j < len(text) and text[j] != q:
            if text[j] == "\\":
                j += 1
            j += 1
        return j + 1
    return i


def match_brace(text, i):
    """text[i] is just after an opening '{'; returns index of the matching '}'"""
    depth = 1
    while depth:
        j = skip_c(text, i)
        if j != i:
            i = j
            continue
        c = text[i]
        if c == "{":
            depth += 1
        elif c == "}":
            depth -= 1
        i += 1
    return i - 1


def sanitise(name):
    tab = {"+": "plus", "-": "minus", "*": "star", "/": "slash", "<": "lt", ">": "gt", "=": "eq",
           "?": "q", "%": "pct", "!": "bang", "@": "at", "&": "amp", "|": "bar", "^": "hat", "~": "tilde"}
    name = name.replace("%25", "%")
    out = []
    for k, c in enumerate(name):
        if c.isalnum() or c == "_":
            out.append(c)
        elif c == "-" and 0 < k < len(name) - 1 and name[k - 1].isalnum() and (name[k + 1].isalnum()):
            out.append("_")
        else:
            out.append("_" + tab.get(c, "x%02x" % ord(c)) + "_")
    s = "".join(out).strip("_")
    s = re.sub(r"__+", "_", s)
    return s or "anon"


class Word:
    def __init__(self, addr, lnum, ins, slots):
        self.addr = addr
        self.lnum = lnum
        self.ins = ins
        self.slots = slots
        self.name = "w%d" % addr

    def targets(self):
        return set(i.arg for i in self.ins if i.kind in ("jmp", "jif", "jifnot"))


class T0Program:
    def __init__(self, key, repo=None):
        self.key = key
        self.repo = repo_dir(repo)
        self.rel = PROGRAMS[key]
        self.path = os.path.join(self.repo, self.rel)
        self.text = open(self.path).read()
        self.sha = hashlib.sha1((self.text + hh(self.repo)).encode()).hexdigest()[:16]
        self._slice()
        self._dump()
        self._decode()

    # ---------------------------------------------------------------- text
    def _slice(self):
        t = self.text
        m = re.search(r"^void\n(br_\w+)_run\(void \*t0ctx\)\n\{", t, re.M)
        if not m:
            raise RuntimeError("no *_run function in " + self.path)
        self.base = m.group(1)                        # e.g. br_pkey_decoder
        self.run_start = m.start()
        ex = t.index("t0_exit:", m.end())
        self.run_end = t.index("\n}\n", ex) + 3      # just after the closing brace line
        self.i_data = t.index("static const unsigned char t0_datablock[]")
        self.i_next = t.index("#define T0_NEXT(")
        self.i_enter = t.index("#define T0_ENTER(")
        mm = re.search(r"#define CTX\s+\(\((\w+) \*\)", t)
        self.ctx_type = mm.group(1)
        self.eng_based = re.search(r"^#define ENG\s", t, re.M) is not None
        self.stack_type = "br_ssl_engine_context" if self.eng_based else self.ctx_type
        self.entries = [(a, int(b)) for a, b in re.findall(r"^T0_DEFENTRY\((\w+), (\d+)\)", t, re.M)]
        # natives
        run = t[self.run_start:self.run_end]
        self.natives = OrderedDict()
        for cm in re.finditer(r"\n\t\t\tcase (\d+): \{\n", run):
            n = int(cm.group(1))
            i = cm.end()
            j = match_brace(run, i)
            body = run[i:j]
            nm = re.match(r"\s*/\* (.*?) \*/", body)
            name = nm.group(1) if nm else "op%d" % n
            line = t.count("\n", 0, self.run_start + cm.start()) + 2
            self.natives[n] = Native(n, name, "t0n_%s_op%d_%s" % (self.key, n, sanitise(name)), body, line)
        # literal expressions of the code block initialiser
        cb = t.index("static const unsigned char t0_codeblock[]")
        b0 = t.index("{", cb) + 1
        b1 = match_brace(t, b0)
        self.code_exprs = {}
        off = 0
        depth = 0
        tok = ""
        toks = []
        for c in t[b0:b1] + ",":
            if c == "(":
                depth += 1
            elif c == ")":
                depth -= 1
            if c == "," and depth == 0:
                if tok.strip():
                    toks.append(tok.strip())
                tok = ""
            else:
                tok += c
        for tk in toks:
            m2 = re.match(r"T0_INT(\d)\((.*)\)$", tk, re.S)
            if m2:
                self.code_exprs[off] = re.sub(r"\s+", " ", m2.group(2))
                off += int(m2.group(1))
            else:
                off += 1
        self.code_len_text = off

    # ---------------------------------------------------------------- compile-and-dump
    def _dump(self):
        os.makedirs(BUILD, exist_ok=True)
        cache = os.path.join(BUILD, "dump-%s-%s.json" % (self.key, self.sha))
        if os.path.exists(cache):
            d = json.load(open(cache))
        else:
            wd = tempfile.mkdtemp(prefix="t0dump-", dir=BUILD)
            try:
                src = os.path.join(wd, "dump.c")
                with open(src, "w") as f:
                    f.write('#include <stdio.h>\n#include "%s"\n' % self.path)
                    f.write("int main(void){size_t i;\n")
                    f.write('printf("C");for(i=0;i<sizeof t0_codeblock;i++)printf(" %u",(unsigned)t0_codeblock[i]);printf("\\n");\n')
                    f.write('printf("D");for(i=0;i<sizeof t0_datablock;i++)printf(" %u",(unsigned)t0_datablock[i]);printf("\\n");\n')
                    f.write('printf("A");for(i=0;i<sizeof t0_caddr/sizeof t0_caddr[0];i++)printf(" %u",(unsigned)t0_caddr[i]);printf("\\n");\n')
                    f.write('printf("I %d\\n",(int)T0_INTERPRETED);\n')
                    f.write('printf("S %%u %%u %%u\\n",(unsigned)(sizeof(((%s *)0)->dp_stack)/sizeof(uint32_t)),(unsigned)(sizeof(((%s *)0)->rp_stack)/sizeof(uint32_t)),(unsigned)sizeof(%s));\n'
                            % (self.stack_type, self.stack_type, self.ctx_type))
                    f.write("return 0;}\n")
                exe = os.path.join(wd, "dump")
                cmd = ["gcc", "-w", "-O0", "-ffunction-sections", "-fdata-sections", "-o", exe, src,
                       "-I" + os.path.join(self.repo, "inc"), "-I" + os.path.join(self.repo, "src")] + repo_defs(self.repo) + \
                      ["-Wl,--gc-sections", "-Wl,--unresolved-symbols=ignore-all"]
                rc, o, e = sh(cmd)
                if rc != 0:
                    raise RuntimeError("cannot compile %s for dumping: %s" % (self.path, e[-2000:]))
                rc, o, e = sh([exe])
                if rc != 0:
                    raise RuntimeError("dumper failed: " + e[-500:])
                L = o.splitlines()
                d = {"code": [int(x) for x in L[0].split()[1:]], "data": [int(x) for x in L[1].split()[1:]],
                     "caddr": [int(x) for x in L[2].split()[1:]], "interp": int(L[3].split()[1]),
                     "ndp": int(L[4].split()[1]), "nrp": int(L[4].split()[2]), "ctx_size": int(L[4].split()[3])}
                with open(cache + ".tmp", "w") as f:
                    json.dump(d, f)
                os.replace(cache + ".tmp", cache)
            finally:
                shutil.rmtree(wd, ignore_errors=True)
        self.code = d["code"]
        self.data = d["data"]
        self.caddr = d["caddr"]
        self.interp = d["interp"]
        self.ndp = d["ndp"]
        self.nrp = d["nrp"]
        self.ctx_size = d["ctx_size"]
        if self.code_len_text != len(self.code):
            raise RuntimeError("code block initialiser parse mismatch: %d vs %d" % (self.code_len_text, len(self.code)))
        if sorted(self.natives) != list(range(7, self.interp)):
            raise RuntimeError("native opcodes are not 7..T0_INTERPRETED-1 in " + self.path)

    # ---------------------------------------------------------------- bytecode
    def parse_u(self, p):
        x = 0
        while True:
            y = self.code[p]
            p += 1
            x = ((x << 7) | (y & 0x7F)) & 0xFFFFFFFF
            if y < 0x80:
                return x, p

    def parse_s(self, p):
        neg = (self.code[p] >> 6) & 1
        x = 0xFFFFFFFF if neg else 0
        while True:
            y = self.code[p]
            p += 1
            x = ((x << 7) | (y & 0x7F)) & 0xFFFFFFFF
            if y < 0x80:
                return (x - (1 << 32) if neg else x), p

    def _decode(self):
        code = self.code
        starts = sorted(set(self.caddr))
        ends = {s: (starts[i + 1] if i + 1 < len(starts) else len(code)) for i, s in enumerate(starts)}
        self.words = OrderedDict()
        for s in starts:
            p = s
            lnum, p = self.parse_u(p)
            e = ends[s]
            ins = []
            while p < e:
                ip0 = p
                op = code[p]
                p += 1
                expr = None
                if op == 0:
                    ins.append(Ins(ip0, "ret", None, p, None))
                elif op == 1:
                    expr = self.code_exprs.get(p)
                    v, p = self.parse_s(p)
                    ins.append(Ins(ip0, "const", v, p, expr))
                elif op in (2, 3):
                    v, p = self.parse_u(p)
                    ins.append(Ins(ip0, "getl" if op == 2 else "putl", v, p, None))
                elif op in (4, 5, 6):
                    v, p = self.parse_s(p)
                    ins.append(Ins(ip0, BUILTIN[op], p + v, p, None))
                elif op < self.interp:
                    ins.append(Ins(ip0, "nat", op, p, None))
                else:
                    ins.append(Ins(ip0, "call", self.caddr[op - self.interp], p, None))
            if p != e:
                raise RuntimeError("word at %d does not end on an instruction boundary" % s)
            slots = [i + self.interp for i, a in enumerate(self.caddr) if a == s]
            w = Word(s, lnum, ins, slots)
            ips = set(i.ip for i in ins)
            for tg in w.targets():
                if tg not in ips:
                    raise RuntimeError("jump target %d of word %d is not an instruction of that word" % (tg, s))
            for i in ins:
                if i.kind in ("getl", "putl") and i.arg >= lnum:
                    raise RuntimeError("local index %d >= %d in word %d" % (i.arg, lnum, s))
            self.words[s] = w
        self.const_words = {}
        for s, w in self.words.items():
            if w.lnum == 0 and len(w.ins) == 2 and w.ins[0].kind == "const" and w.ins[1].kind == "ret":
                self.const_words[s] = (w.ins[0].arg, w.ins[0].expr)
                w.name = "const(%s)" % (w.ins[0].expr or w.ins[0].arg)
        self.main_words = {}
        for name, slot in self.entries:
            a = self.caddr[slot - self.interp]
            self.main_words[name] = a
            self.words[a].name = "main:" + name

    def native_by_name(self, name):
        for n in self.natives.values():
            if n.name == name:
                return n
        return None

    def callgraph(self):
        g = {}
        for s, w in self.words.items():
            g[s] = sorted(set(i.arg for i in w.ins if i.kind == "call"))
        return g

    def reachable_words(self):
        g = self.callgraph()
        seen = set()
        st = list(self.main_words.values())
        while st:
            s = st.pop()
            if s in seen:
                continue
            seen.add(s)
            st += g[s]
        return seen

    def recursive_words(self):
        """words on a call cycle (Tarjan SCCs of size > 1 or self loops)"""
        g = self.callgraph()
        idx = {}
        low = {}
        onst = set()
        st = []
        out = []
        counter = [0]
        sys.setrecursionlimit(10000)

        def dfs(v):
            idx[v] = low[v] = counter[0]
            counter[0] += 1
            st.append(v)
            onst.add(v)
            for w in g[v]:
                if w not in idx:
                    dfs(w)
                    low[v] = min(low[v], low[w])
                elif w in onst:
                    low[v] = min(low[v], idx[w])
            if low[v] == idx[v]:
                comp = []
                while True:
                    w = st.pop()
                    onst.discard(w)
                    comp.append(w)
                    if w == v:
                        break
                if len(comp) > 1 or v in g[v]:
                    out.append(sorted(comp))
        for v in g:
            if v not in idx:
                dfs(v)
        return out

    def call_sites(self, op):
        out = []
        for s, w in self.words.items():
            for k, i in enumerate(w.ins):
                if i.kind == "nat" and i.arg == op:
                    out.append((s, k))
        return out

    def used_natives(self):
        u = set()
        for w in self.words.values():
            for i in w.ins:
                if i.kind == "nat":
                    u.add(i.arg)
        return u

    def dis(self, out=sys.stdout):
        for s, w in self.words.items():
            out.write("\n; word %d %s  slots=%s locals=%d\n" % (s, w.name, w.slots, w.lnum))
            tg = w.targets()
            for i in w.ins:
                lab = "L%-5d" % i.ip if i.ip in tg else "      "
                if i.kind == "nat":
                    a = "%d  ; %s" % (i.arg, self.natives[i.arg].name)
                elif i.kind == "call":
                    a = "%d  ; %s" % (i.arg, self.words[i.arg].name)
                elif i.kind == "const":
                    a = "%d%s" % (i.arg, "  ; " + i.expr if i.expr else "")
                elif i.arg is None:
                    a = ""
                else:
                    a = ("L%d" % i.arg) if i.kind.startswith("j") else str(i.arg)
                out.write("%s %5d  %-7s %s\n" % (lab, i.ip, i.kind, a))



# ====================================================================== layout
def layout(prog):
    """leaf fields of the context struct: names from clang's record layout dump,
    offsets/sizes re-measured with a gcc-compiled offsetof/sizeof probe"""
    cache = os.path.join(BUILD, "layout2-%s-%s.json" % (prog.key, prog.sha))
    if os.path.exists(cache):
        return [Field(*x) for x in json.load(open(cache))]
    wd = tempfile.mkdtemp(prefix="t0lay-", dir=BUILD)
    try:
        src = os.path.join(wd, "lay.c")
        with open(src, "w") as f:
            f.write('#include "inner.h"\nstruct t0lay_wrap { %s t0lay_m; } t0lay_x;\nunsigned long t0lay_f(void){ return sizeof(t0lay_x); }\n' % prog.ctx_type)
        inc = ["-I" + os.path.join(prog.repo, "inc"), "-I" + os.path.join(prog.repo, "src")] + repo_defs(prog.repo)
        rc, o, e = sh(["clang", "-w"] + inc + ["-Xclang", "-fdump-record-layouts", "-c", "-o", os.devnull, src])
        txt = o + e
        blocks = txt.split("*** Dumping AST Record Layout")
        blk = None
        for b in blocks:
            L = b.strip("\n").splitlines()
            if L and re.match(r"\s*0 \| struct t0lay_wrap$", L[0]):
                blk = L[1:]
        if blk is None:
            raise RuntimeError("clang did not print the layout of " + prog.ctx_type)
        rows = []
        for ln in blk[1:]:
            m = re.match(r"\s*(\d+) \|(\s+)(.*)$", ln)
            if not m:
                continue
            depth = (len(m.group(2)) - 1) // 2 - 1
            if depth < 1:
                continue
            decl = m.group(3)
            name = decl.split()[-1]
            typ = decl[:-(len(name))].strip()
            rows.append((depth, name, typ, int(m.group(1))))
        # build leaf paths; unions and arrays are leaves
        paths = []
        kinds = {}
        stack = []
        skip_depth = None
        for k, (depth, name, typ, roff) in enumerate(rows):
            if skip_depth is not None and depth > skip_depth:
                continue
            skip_depth = None
            stack = stack[:depth - 1] + [name]
            nxt_deeper = k + 1 < len(rows) and rows[k + 1][0] > depth
            is_union = typ.startswith("union ")
            if nxt_deeper and not is_union:
                # typedef'd unions: two direct children at the same offset
                offs = []
                for r2 in rows[k + 1:]:
                    if r2[0] <= depth:
                        break
                    if r2[0] == depth + 1:
                        offs.append(r2[3])
                is_union = len(offs) != len(set(offs))
            if nxt_deeper and not is_union:
                continue
            if is_union:
                skip_depth = depth
            # kind: S scalar, P pointer, A byte array, W array of scalars, U union / array of records
            m3 = re.match(r"^(.*?)\[(\d+)\]$", typ)
            if is_union:
                kind, cnt = "U", 1
            elif m3:
                et = m3.group(1).strip()
                cnt = int(m3.group(2))
                if "*" in et or "[" in et:
                    kind = "U"
                elif et in ("unsigned char", "char", "uint8_t", "signed char"):
                    kind = "A"
                elif et in ("uint16_t", "uint32_t", "uint64_t", "int", "unsigned", "unsigned int", "int32_t", "size_t", "unsigned short", "short"):
                    kind = "W"
                else:
                    kind = "U"
            elif "*" in typ:
                kind, cnt = "P", 1
            elif nxt_deeper:
                kind, cnt = "U", 1
            else:
                kind, cnt = "S", 1
            paths.append(".".join(stack))
            kinds[".".join(stack)] = (kind, cnt)
        probe = os.path.join(wd, "probe.c")
        with open(probe, "w") as f:
            f.write('#include <stdio.h>\n#include "inner.h"\nint main(void){\n')
            for pth in paths:
                f.write('printf("%s %%u %%u\\n",(unsigned)offsetof(%s,%s),(unsigned)sizeof(((%s*)0)->%s));\n' % (pth, prog.ctx_type, pth, prog.ctx_type, pth))
            f.write("return 0;}\n")
        exe = os.path.join(wd, "probe")
        rc, o, e = sh(["gcc", "-w", "-o", exe, probe] + inc)
        if rc != 0:
            raise RuntimeError("layout probe does not compile: " + e[-1500:])
        rc, o, e = sh([exe])
        fields = []
        for ln in o.splitlines():
            a, b, c = ln.split()
            fields.append(Field(a, int(b), int(c), kinds[a][0], kinds[a][1]))
        fields.sort(key=lambda x: (x.off, -x.size))
        with open(cache + ".tmp", "w") as f:
            json.dump([list(x) for x in fields], f)
        os.replace(cache + ".tmp", cache)
        return fields
    finally:
        shutil.rmtree(wd, ignore_errors=True)


def field_of(prog, off):
    for f in layout(prog):
        if f.off <= off < f.off + f.size:
            return f
    return None


# ====================================================================== E2
ADDR_REWRITES = [
    (re.compile(r"\*\((uint16_t|uint32_t) \*\)\(void \*\)\(\(unsigned char \*\)(CTX|ENG) \+ (\w+)\)"),
     r"*(\1 *)(void *)T0_ADDR(\2, \3, sizeof(\1))"),
    (re.compile(r"\*\(\(unsigned char \*\)(CTX|ENG) \+ (\w+)\)"), r"*T0_ADDR(\1, \2, 1)"),
    (re.compile(r"\((?:const )?unsigned char \*\)(CTX|ENG) \+ ((?:\(size_t\))?T0_POP\(\)|\w+)"), r"T0_ADDR(\1, \2, 0)"),
]


def rewrite_addr(body):
    """the one non-verbatim step of E2: context-offset address operands
    '(unsigned char *)CTX + x' become T0_ADDR(CTX, x, width) (identity by default)"""
    n = 0
    for rx, rep in ADDR_REWRITES:
        body, k = rx.subn(rep, body)
        n += k
    if re.search(r"unsigned char \*\)\s*(CTX|ENG)\s*\+", body):
        raise RuntimeError("unrecognised context address expression in native body:\n" + body)
    return body, n


_gen_done = {}
import threading
_gen_lock = threading.RLock()


def gen_dir(prog):
    """directory with the generated files of a program; regenerated once per process
    (atomically: other processes may be compiling from the same directory)"""
    d = os.path.join(BUILD, "gen-%s-%s" % (prog.key, prog.sha))
    with _gen_lock:
        return _gen_dir_locked(prog, d)


def _gen_dir_locked(prog, d):
    if d not in _gen_done:
        os.makedirs(d, exist_ok=True)
        tmp = tempfile.mkdtemp(prefix="gentmp-", dir=BUILD)
        try:
            _generate(prog, tmp)
            for f in os.listdir(tmp):
                new = open(os.path.join(tmp, f)).read()
                dst = os.path.join(d, f)
                if not os.path.exists(dst) or open(dst).read() != new:
                    os.replace(os.path.join(tmp, f), dst)
        finally:
            shutil.rmtree(tmp, ignore_errors=True)
        _gen_done[d] = True
    return d


def extract_natives(prog, outdir=None):
    """E2: returns the path of the generated C file"""
    if outdir:
        os.makedirs(outdir, exist_ok=True)
        _generate(prog, outdir)
        return os.path.join(outdir, "t0n_%s.c" % prog.key)
    return os.path.join(gen_dir(prog), "t0n_%s.c" % prog.key)


def _generate(prog, d):
    t = prog.text
    key = prog.key
    o = []
    o.append("/* GENERATED by encoders/t0tool.py (E2) from %s -- do not edit.\n" % prog.rel)
    o.append(" * One C function per native word; bodies verbatim except T0_ADDR() (see rewrite_addr). */\n")
    o.append('#include "inner.h"\n#ifdef T0N_PRE_INCLUDE\n#include T0N_PRE_INCLUDE\n#endif\n')
    o.append('#line 1 "%s"\n' % prog.path)
    o.append(t[:prog.i_next])
    o.append("\n/* ---- E2: extracted native words ---- */\n")
    defs = re.findall(r"^#define (CTX|ENG)\b(.*(?:\\\n.*)*)$", t[:prog.i_data], re.M)
    o.append("#undef CTX\n")
    if prog.eng_based:
        o.append("#undef ENG\n#define ENG (&t0n_ctx->eng)\n#define T0N_STK(c) (&(c)->eng)\n")
    else:
        o.append("#define T0N_STK(c) (c)\n")
    o.append("#define CTX t0n_ctx\n#define T0N_CTXT %s\n#define T0N_KEY_%s 1\n" % (prog.ctx_type, key))
    o.append('#include "t0n_vm.h"\n')
    nrew = 0
    for n in prog.natives.values():
        body, k = rewrite_addr(n.body)
        nrew += k
        o.append("\n/* opcode %d: %s */\nstatic void\n%s(T0N_CTXT *t0n_ctx)\n{\n\tvoid *t0ctx = &T0N_STK(t0n_ctx)->cpu; (void)t0ctx;\n" % (n.op, n.name, n.cname))
        o.append('#line %d "%s"\n' % (n.line, prog.path))
        o.append(body)
        o.append("\n}\n")
    o.append("\nstatic void\nt0n_%s_dispatch(T0N_CTXT *t0n_ctx, unsigned op)\n{\n\tswitch (op) {\n" % key)
    for n in prog.natives.values():
        o.append("\tcase %d: %s(t0n_ctx); break;\n" % (n.op, n.cname))
    o.append("\t}\n}\n")
    # rebuilt interpreter over the extracted natives (same bytecode, index registers)
    o.append(r"""
#ifndef T0N_NO_RUN
void
%(base)s_run(void *t0ctx_)
{
	T0N_CTXT *t0n_ctx = (T0N_CTXT *)(void *)((unsigned char *)t0ctx_ - offsetof(%(stk)s, cpu));
	const unsigned char *ip;
	t0n_dpi = (uint32_t)(T0N_STK(t0n_ctx)->cpu.dp - T0N_DS);
	t0n_rpi = (uint32_t)(T0N_STK(t0n_ctx)->cpu.rp - T0N_RS);
	ip = T0N_STK(t0n_ctx)->cpu.ip;
	for (;;) {
		uint32_t t0x = pgm_read_byte(ip ++);
		int32_t t0off;
		if (t0x >= T0_INTERPRETED) {
			const unsigned char *t0_newip = &t0_codeblock[pgm_read_word(&t0_caddr[t0x - T0_INTERPRETED])];
			uint32_t t0_lnum = t0_parse7E_unsigned(&t0_newip);
			t0n_rpi += t0_lnum;
			T0_RPUSH((uint32_t)(ip - &t0_codeblock[0]) + (t0_lnum << 16));
			ip = t0_newip;
			continue;
		}
		switch (t0x) {
		case 0:
			t0x = T0_RPOP();
			t0n_rpi -= (t0x >> 16);
			t0x &= 0xFFFF;
			if (t0x == 0) { ip = NULL; goto t0n_exit; }
			ip = &t0_codeblock[t0x];
			break;
		case 1: T0_PUSHi(t0_parse7E_signed(&ip)); break;
		case 2: { uint32_t t0n_l = t0_parse7E_unsigned(&ip); T0_PUSH(T0_LOCAL(t0n_l)); } break;
		case 3: { uint32_t t0n_l = t0_parse7E_unsigned(&ip); uint32_t t0n_x = T0_POP(); T0_LOCAL(t0n_l) = t0n_x; } break;
		case 4: t0off = t0_parse7E_signed(&ip); ip += t0off; break;
		case 5: t0off = t0_parse7E_signed(&ip); if (T0_POP()) ip += t0off; break;
		case 6: t0off = t0_parse7E_signed(&ip); if (!T0_POP()) ip += t0off; break;
		default:
			t0n_co = 0;
			t0n_%(key)s_dispatch(t0n_ctx, t0x);
			if (t0n_co) goto t0n_exit;
			break;
		}
	}
t0n_exit:
	T0N_STK(t0n_ctx)->cpu.dp = &T0N_DS[t0n_dpi];
	T0N_STK(t0n_ctx)->cpu.rp = &T0N_RS[t0n_rpi];
	T0N_STK(t0n_ctx)->cpu.ip = ip;
}
#endif
""" % {"base": prog.base, "key": key, "stk": prog.stack_type})
    o.append("""
#ifdef T0N_EXPORT
/* entry point for the translation-validation driver */
void
t0e2_%(key)s_exec(void *ctx, unsigned op, uint32_t *dpi, uint32_t *rpi, int *co)
{
	t0n_dpi = *dpi; t0n_rpi = *rpi; t0n_co = 0;
	t0n_%(key)s_dispatch((T0N_CTXT *)ctx, op);
	*dpi = t0n_dpi; *rpi = t0n_rpi; *co = t0n_co;
}
#endif
""" % {"key": key})
    o.append("\n/* ---- end of E2 part; original definitions restored for the trailing code ---- */\n#undef CTX\n")
    if prog.eng_based:
        o.append("#undef ENG\n")
    for nm, rest in defs:
        o.append("#define %s%s\n" % (nm, rest))
    o.append('#line %d "%s"\n' % (t.count("\n", 0, prog.run_end) + 1, prog.path))
    o.append(t[prog.run_end:])
    with open(os.path.join(d, "t0n_%s.c" % key), "w") as f:
        f.write("".join(o))
    # field table
    fl = layout(prog)
    with open(os.path.join(d, "t0n_%s_fields.h" % key), "w") as f:
        f.write("/* GENERATED: leaf fields of %s (clang record layout, re-measured by gcc); X(path) */\n" % prog.ctx_type)
        f.write("#define T0N_FIELDS(X) \\\n")
        for x in fl:
            f.write("\tX(%s) \\\n" % x.path)
        f.write("\n")
        f.write("#define T0N_FIELD_KINDS(S, P, A, W, U) \\\n")
        for x in fl:
            if x.kind in ("A", "W"):
                f.write("\t%s(%s, %d) \\\n" % (x.kind, x.path, x.count))
            elif x.kind == "S" and x.size > 8:
                f.write("\tU(%s) \\\n" % x.path)
            else:
                f.write("\t%s(%s) \\\n" % (x.kind, x.path))
        f.write("\n")
        f.write("#define T0N_FIELD_ASSERTS \\\n")
        for x in fl:
            f.write("\t_Static_assert(offsetof(%s, %s) == %d && sizeof(((%s *)0)->%s) == %d, \"layout of %s\"); \\\n" % (
                prog.ctx_type, x.path, x.off, prog.ctx_type, x.path, x.size, x.path))
        f.write("\t_Static_assert(sizeof(%s) == %d, \"size of context\");\n" % (prog.ctx_type, prog.ctx_size))
    with open(os.path.join(d, "t0n_%s_ops.h" % key), "w") as f:
        f.write("/* GENERATED: native words of %s; X(opcode, function, \"name\") */\n#define T0N_OPS(X) \\\n" % prog.rel)
        for n in prog.natives.values():
            f.write("\tX(%d, %s, \"%s\") \\\n" % (n.op, n.cname, n.name.replace("\\", "\\\\").replace('"', '\\"')))
        f.write("\n#define T0N_NUM_ADDR_REWRITES %d\n#define C05_DISPATCH t0n_%s_dispatch\n#define T0N_RUN_FN %s_run\n" % (nrew, key, prog.base))
        for n in prog.natives.values():
            f.write("#define C05_OP_%s %d\n" % (sanitise(n.name), n.op))
    return d



# ====================================================================== effects (CBMC on the E2 functions)
HARN = os.path.join(ROOT, "harness")
Effect = namedtuple("Effect", "op name delta need peak rdelta rneed rpeak co proved note codelta noco coerr coerr_nz")


EFFECT_VERSION = "effects-v4 unwind14+harness-loops default-checks"
# loops of the harness itself (construction of the symbolic state) get their own bounds
HARNESS_LOOPS = ["main.%d:40" % i for i in range(4)] + ["c05_env.%d:70" % i for i in range(14)] + \
                ["c05_engine_env.%d:70" % i for i in range(8)] + ["c05_init_symbolic.%d:40" % i for i in range(48)] + \
                ["c05_anchor.%d:70" % i for i in range(2)] + ["c05_pkey_setup.%d:70" % i for i in range(3)]


def _harness_hash(prog=None):
    h = hashlib.sha1()
    for f in ("C05_native.c", "C05_pre.h", "C05_env.h", "common.h", "strmodel.c") + (("C05_env_hs.h",) if (prog is None or prog.eng_based) else ()):
        pth = os.path.join(HARN, f)
        if os.path.exists(pth):
            h.update(open(pth, "rb").read())
    h.update(open(os.path.join(HERE, "t0n_vm.h"), "rb").read())
    h.update(EFFECT_VERSION.encode())
    try:
        h.update(subprocess.check_output(["cbmc", "--version"]))
    except Exception:
        pass
    return h.hexdigest()[:12]


def effect_units(prog):
    """real units linked into the measurement / layer-2 harness of a program"""
    if prog.eng_based:
        return HS_UNITS
    return []


HS_UNITS = []   # engine / multihash / DRBG are stubbed at the link seam (harness/C05_env_hs.h)


def goto_cc_native(prog, op, out, extra_defs=(), units=None):
    d = gen_dir(prog)
    ensure_pre(prog)
    srcs = [os.path.join(HARN, "C05_native.c"), os.path.join(HARN, "strmodel.c")]
    srcs += [os.path.join(prog.repo, u) for u in (effect_units(prog) if units is None else units)]
    cmd = ["goto-cc", "-I" + os.path.join(prog.repo, "inc"), "-I" + os.path.join(prog.repo, "src"), "-I" + HARN,
           "-I" + HERE, "-I" + d, "-DVERIF_CBMC=1", "-DBEARSSL_ESP8266_VERIF", "-DC05_KEY_%s=1" % prog.key, "-DOP=%d" % op] + \
          repo_defs(prog.repo) + list(extra_defs) + ["-o", out] + srcs
    return sh(cmd, timeout=300)


def _noeff(op, name, note):
    return Effect(op, name, None, None, None, None, None, None, None, False, note, None, None, None, None)


def _measure(prog, op, wd, lit=None, timeout=600):
    e = _measure1(prog, op, wd, lit, timeout, 14)
    if not e.proved and "unwinding assertion" in (e.note or ""):
        e2 = _measure1(prog, op, wd, lit, 900, 300)
        if e2.proved:
            return e2._replace(note=(e2.note + " | unwind 300").strip(" |"))
    return e


def _measure1(prog, op, wd, lit, timeout, unwind):
    n = prog.natives[op]
    gb = os.path.join(wd, "eff-%s-%d%s.gb" % (prog.key, op, "" if lit is None else "-lit%d" % lit))
    defs = ["-DC05_EFFECT=1"] + (["-DC05_LIT=%d" % lit] if lit is not None else [])
    rc, o, e = goto_cc_native(prog, op, gb, defs)
    if rc != 0:
        return _noeff(op, n.name, "goto-cc failed: " + (o + e)[-800:])
    try:
        rc, o, e = sh(["cbmc", gb, "--json-ui", "--no-malloc-may-fail", "--unwind", str(unwind), "--unwindset", ",".join(HARNESS_LOOPS),
                       "--unwinding-assertions", "--drop-unused-functions", "--slice-formula"], timeout=timeout)
    except subprocess.TimeoutExpired:
        return _noeff(op, n.name, "cbmc timeout")
    finally:
        try:
            os.unlink(gb)
        except OSError:
            pass
    try:
        js = json.loads(o)
    except Exception:
        return _noeff(op, n.name, "cbmc output unparsable: " + (o + e)[-300:])
    res = []
    nobody = []
    for m in js:
        if "result" in m:
            res = m["result"]
        if "messageText" in m and "no body for" in m["messageText"]:
            nobody.append(m["messageText"].strip())
    if not res:
        return _noeff(op, n.name, "no results: " + (o + e)[-300:])
    poss = {}
    bad = []
    completed = False
    co = noco = coerr = coerr_nz = None
    for r in res:
        d = r.get("description", "")
        st = r.get("status")
        m = re.match(r"EFF (\w+) (-?\d+)$", d)
        if m:
            if st == "FAILURE":
                poss.setdefault(m.group(1), set()).add(int(m.group(2)))
            continue
        if d == "EFF co":
            co = st == "FAILURE"
            continue
        if d == "EFF noco":
            noco = st == "FAILURE"       # some path returns without yielding
            continue
        if d == "EFF coerr":
            coerr = st == "SUCCESS"      # every yielding path leaves err != 0
            continue
        if d == "EFF coerr_nz":
            coerr_nz = st == "SUCCESS"   # ... provided the top-of-stack operand was non-zero
            continue
        if d == "EFF completed":
            completed = st == "FAILURE"
            continue
        pn = r.get("property", "")
        if ".no-body." in pn:
            if st != "SUCCESS":
                nobody.append(d)
            continue
        relevant = ".unwind." in pn or ".assertion." in pn or "function pointer" in d or d.startswith("EFF")
        if relevant and st != "SUCCESS":
            bad.append("%s [%s]" % (d, r.get("sourceLocation", {}).get("function", "?")))
    note = []
    if bad:
        note.append("failed: " + "; ".join(sorted(set(bad)))[:300])
    if nobody:
        note.append("; ".join(sorted(set(nobody)))[:300])
    if not completed:
        note.append("end of native unreachable")

    def one(k):
        v = poss.get(k, set())
        return list(v)[0] if len(v) == 1 else None

    def mx(k):
        v = poss.get(k, set())
        return max(v) if v else None
    delta, rdelta, codelta = one("delta"), one("rdelta"), one("codelta")
    if not noco:
        delta = codelta          # the word always yields (co, fail): the effect is that of the yielding paths
    if delta is None or (co and codelta is None):
        note.append("data stack effect not constant: %s / when yielding %s" % (sorted(poss.get("delta", [])), sorted(poss.get("codelta", []))))
    if rdelta is None:
        note.append("return stack effect not constant: %s" % sorted(poss.get("rdelta", [])))
    proved = not bad and not nobody and completed and delta is not None and rdelta is not None and (not co or codelta is not None)
    return Effect(op, n.name, delta, mx("need"), mx("peak"), rdelta, mx("rneed"), mx("rpeak"), co, proved, " | ".join(note),
                  codelta if co else None, noco, coerr if co else None, coerr_nz if co else None)


def native_effects(prog, jobs=None, force=False):
    """{opcode: Effect} -- each entry PROVED by CBMC on the E2 function for every
    pre-state (delta constant; need/peak = maxima over all paths); cached by content"""
    jobs = jobs or int(os.environ.get("T0TOOL_JOBS", "4"))
    src = open(extract_natives(prog)).read()
    hk = hashlib.sha1((src + _harness_hash(prog) + hh(prog.repo)).encode()).hexdigest()[:16]
    cache = os.path.join(BUILD, "effects-%s-%s.json" % (prog.key, hk))
    if os.path.exists(cache) and not force:
        d = json.load(open(cache))
        return {int(k): Effect(*v) for k, v in d.items()}
    gen_preconditions(prog, None, refine=False)      # refresh the call-site facts used in measurement mode
    wd = tempfile.mkdtemp(prefix="t0eff-", dir=BUILD)
    from concurrent.futures import ThreadPoolExecutor
    try:
        with ThreadPoolExecutor(max_workers=jobs) as ex:
            effs = list(ex.map(lambda op: _measure(prog, op, wd), list(prog.natives)))
        out = {e.op: e for e in effs}
        # value-dependent words: measure per literal found at the call sites
        for e in effs:
            if e.proved or not ("not constant" in e.note or "EFF range" in e.note):
                continue
            lits = set()
            ok = True
            for (w, k) in prog.call_sites(e.op):
                v = literal_before(prog, w, k)
                if v is None:
                    ok = False
                else:
                    lits.add(v)
            if not ok or not lits:
                continue
            subs = {}
            for v in sorted(lits):
                subs[v] = _measure(prog, e.op, wd, lit=v)
            if all(x.proved for x in subs.values()):
                out[e.op] = e._replace(note=e.note + " | per-literal: " + json.dumps({str(v): [x.delta, x.need, x.peak] for v, x in subs.items()}))
        with open(cache + ".tmp", "w") as f:
            json.dump({str(k): list(v) for k, v in out.items()}, f)
        os.replace(cache + ".tmp", cache)
        return out
    finally:
        shutil.rmtree(wd, ignore_errors=True)


def literal_before(prog, waddr, k):
    """value of the literal pushed by the instruction just before instruction k of word waddr
    (const, or call of a constant word), if that instruction is not a jump target"""
    w = prog.words[waddr]
    if k == 0 or w.ins[k].ip in w.targets():
        return None
    p = w.ins[k - 1]
    if p.kind == "const":
        return p.arg
    if p.kind == "call" and p.arg in prog.const_words:
        return prog.const_words[p.arg][0]
    return None


def dup_spec_ok(prog):
    """CBMC proof that the native named `dup` really duplicates the top of the data stack"""
    n = prog.native_by_name("dup")
    if n is None:
        return False
    src = open(extract_natives(prog)).read()
    hk = hashlib.sha1((src + _harness_hash(prog) + hh(prog.repo) + "dup").encode()).hexdigest()[:16]
    cache = os.path.join(BUILD, "dupspec-%s-%s.json" % (prog.key, hk))
    if os.path.exists(cache):
        return json.load(open(cache))
    wd = tempfile.mkdtemp(prefix="t0dup-", dir=BUILD)
    try:
        gb = os.path.join(wd, "dup.gb")
        rc, o, e = goto_cc_native(prog, n.op, gb, ["-DC05_EFFECT=1", "-DC05_SPEC_DUP=1"])
        ok = False
        if rc == 0:
            rc, o, e = sh(["cbmc", gb, "--json-ui", "--no-malloc-may-fail", "--unwind", "14", "--unwindset", ",".join(HARNESS_LOOPS),
                           "--unwinding-assertions", "--drop-unused-functions", "--slice-formula"], timeout=300)
            try:
                for m in json.loads(o):
                    if "result" in m:
                        ok = any(r.get("description") == "SPEC dup" and r.get("status") == "SUCCESS" for r in m["result"])
            except Exception:
                ok = False
        with open(cache, "w") as f:
            json.dump(ok, f)
        return ok
    finally:
        shutil.rmtree(wd, ignore_errors=True)


def top_nonzero_before(prog, waddr, k):
    """True if the bytecode guarantees a non-zero top of stack on entry to instruction k of word waddr:
    a non-zero literal just before, or the fall-through of `dup ; jump-if-not` (dup proved by CBMC)"""
    w = prog.words[waddr]
    v = literal_before(prog, waddr, k)
    if v is not None:
        return v != 0
    if k >= 2 and w.ins[k].ip not in w.targets() and w.ins[k - 1].kind == "jifnot" and w.ins[k - 1].ip not in w.targets():
        p = w.ins[k - 2]
        if p.kind == "nat" and prog.natives[p.arg].name == "dup" and dup_spec_ok(prog):
            return True
    return False


def cli_effects(p, rest):
    effs = native_effects(p, force="--force" in rest)
    bad = 0
    for e in effs.values():
        print("%s %3d %-28s delta=%s need=%s peak=%s rdelta=%s co=%s%s %s %s" % (
            p.key, e.op, e.name, e.delta, e.need, e.peak, e.rdelta, e.co,
            (" codelta=%s returns=%s coerr=%s" % (e.codelta, e.noco, e.coerr)) if e.co else "", "PROVED" if e.proved else "NOT-PROVED", e.note[:400]))
        bad += 0 if e.proved else 1
    print("%s: %d natives, %d not proved" % (p.key, len(effs), bad))
    return 0



# ====================================================================== E4: stack-effect system (z3)
def _z3(script, timeout=120):
    f = tempfile.NamedTemporaryFile("w", suffix=".smt2", dir=BUILD, delete=False)
    f.write(script)
    f.close()
    try:
        rc, o, e = sh(["z3", "-T:%d" % timeout, f.name], timeout=timeout + 30)
    finally:
        os.unlink(f.name)
    return o


def site_effect(prog, effects, waddr, k):
    """effect of native call site k of word waddr: (Effect, per-literal override or None)"""
    ins = prog.words[waddr].ins[k]
    e = effects[ins.arg]
    if e.proved and e.delta is not None:
        return e, None
    m = re.search(r"per-literal: (\{.*\})", e.note or "")
    if m:
        tab = json.loads(m.group(1))
        if e.delta is None and len(set(v[0] for v in tab.values())) != 1:
            pass
        v = literal_before(prog, waddr, k)
        if v is not None and str(v) in tab:
            d, need, peak = tab[str(v)]
            return e._replace(delta=d, need=need, peak=peak, proved=True), v
    return e, None


def stack_system(prog, effects=None, resume_after_fail=False):
    """E4.  Builds the linear system D[succ] = D[ip] + effect over the bytecode CFG
    (per word, composed over calls by summaries N/H/L; return stack likewise) and asks z3
      (a) is the system satisfiable (stack depth is a function of the instruction)?
      (b) system AND (H_main > N_dp OR L_main < 0 OR frame_main + RH_main > N_rp)  -- must be UNSAT
    resume_after_fail=False: a native path that yields with err != 0 never continues
    (the push function of the program refuses to resume: checked separately);
    True: every yield may be resumed (br_pkey/skey/x509_decoder_push do not test err)."""
    if effects is None:
        effects = native_effects(prog)
    res = {"program": prog.key, "file": prog.rel, "ndp": prog.ndp, "nrp": prog.nrp, "resume_after_fail": resume_after_fail,
           "not_covered": [], "recursion": prog.recursive_words(), "value_dependent_sites": []}
    if res["recursion"]:
        res["not_covered"].append("recursive words: %s" % res["recursion"])
    unproved = [e for e in effects.values() if not e.proved and e.op in prog.used_natives()]
    reach_words = prog.reachable_words()
    # --- graph
    decl = []
    asr = []
    terms_H = {}
    terms_L = {}
    terms_RH = {}
    returns = {}
    order = []
    # which words can return (fixpoint over reachability with terminal edges removed)
    def edges(w, can_return):
        """yields (i, j or None('ret'), eff, low, peak, rpeak) for reachable instructions"""
        idx = {ins.ip: n for n, ins in enumerate(w.ins)}
        out = {}
        for n, ins in enumerate(w.ins):
            nxt = n + 1 if n + 1 < len(w.ins) else None
            L = []
            if ins.kind in ("const", "getl"):
                L.append((nxt, 1)); low, pk, rpk = 0, 1, 0
            elif ins.kind == "putl":
                L.append((nxt, -1)); low, pk, rpk = -1, 0, 0
            elif ins.kind == "jmp":
                L.append((idx[ins.arg], 0)); low, pk, rpk = 0, 0, 0
            elif ins.kind in ("jif", "jifnot"):
                L.append((idx[ins.arg], -1)); L.append((nxt, -1)); low, pk, rpk = -1, 0, 0
            elif ins.kind == "ret":
                L.append(("ret", 0)); low, pk, rpk = 0, 0, 0
            elif ins.kind == "nat":
                e, lit = site_effect(prog, effects, w.addr, n)
                if not e.proved or e.delta is None:
                    out[n] = None
                    continue
                if e.noco is None or e.noco:
                    L.append((nxt, e.delta))
                if e.co:
                    terminal = False
                    if not resume_after_fail:
                        if e.coerr:
                            terminal = True
                        elif e.coerr_nz:
                            terminal = top_nonzero_before(prog, w.addr, n)
                    if not terminal:
                        L.append((nxt, e.codelta))
                low, pk, rpk = -e.need, e.peak, e.rpeak
            elif ins.kind == "call":
                c = prog.words[ins.arg]
                if can_return.get(ins.arg, False):
                    L.append((nxt, ("N", ins.arg)))
                low, pk, rpk = ("L", ins.arg), ("H", ins.arg), ("RH", ins.arg, c.lnum + 1)
            out[n] = (L, low, pk, rpk)
        return out

    can_return = {a: False for a in prog.words}
    changed = True
    reach = {}
    while changed:
        changed = False
        for a, w in prog.words.items():
            ed = edges(w, can_return)
            seen = set()
            st = [0] if w.ins else []
            ret = False
            while st:
                n = st.pop()
                if n in seen or n is None:
                    continue
                seen.add(n)
                if ed[n] is None:
                    continue
                for (j, eff) in ed[n][0]:
                    if j == "ret":
                        ret = True
                    elif j is not None:
                        st.append(j)
                    # falling off the end of a word (j None) cannot happen in well-formed code: checked below
            reach[a] = seen
            if ret and not can_return[a]:
                can_return[a] = True
                changed = True
    res["main_can_return"] = any(can_return[a] for a in prog.main_words.values())
    fall_off = []
    bad_sites = []
    lines = ["(set-option :produce-models true)"]
    allv = []

    def ex(t, a=None):
        if isinstance(t, tuple):
            if t[0] == "N":
                return "N_%d" % t[1]
            if t[0] == "L":
                return "L_%d" % t[1]
            if t[0] == "H":
                return "H_%d" % t[1]
            if t[0] == "RH":
                return "(+ RH_%d %d)" % (t[1], t[2])
        return str(t) if t >= 0 else "(- %d)" % (-t)
    for a, w in prog.words.items():
        if a not in reach_words:
            continue
        ed = edges(w, can_return)
        for v in ("N_%d" % a, "H_%d" % a, "L_%d" % a, "RH_%d" % a):
            lines.append("(declare-const %s Int)" % v)
            allv.append(v)
        for n in sorted(reach[a]):
            lines.append("(declare-const D_%d_%d Int)" % (a, w.ins[n].ip))
            allv.append("D_%d_%d" % (a, w.ins[n].ip))
        if not w.ins:
            continue
        lines.append("(assert (= D_%d_%d 0))" % (a, w.ins[0].ip))
        hs, ls, rhs = [], [], []
        for n in sorted(reach[a]):
            d = "D_%d_%d" % (a, w.ins[n].ip)
            if ed[n] is None:
                ins = w.ins[n]
                bad_sites.append("word %d ip %d: native %d (%s) has no proved constant stack effect" % (a, ins.ip, ins.arg, prog.natives[ins.arg].name))
                continue
            L, low, pk, rpk = ed[n]
            for (j, eff) in L:
                if j == "ret":
                    lines.append("(assert (= N_%d %s))" % (a, d))
                elif j is None:
                    fall_off.append("word %d: control falls off the end after ip %d" % (a, w.ins[n].ip))
                else:
                    lines.append("(assert (= D_%d_%d (+ %s %s)))" % (a, w.ins[j].ip, d, ex(eff)))
            hs.append("(+ %s %s)" % (d, ex(pk)))
            ls.append("(+ %s %s)" % (d, ex(low)))
            rhs.append(ex(rpk))
        for nm, ts, op in (("H_%d" % a, hs, ">="), ("L_%d" % a, ls, "<="), ("RH_%d" % a, rhs, ">=")):
            ts = ts or ["0"]
            for t in ts:
                lines.append("(assert (%s %s %s))" % (op, nm, t))
            lines.append("(assert (or %s))" % " ".join("(= %s %s)" % (nm, t) for t in ts))
    res["not_covered"] += fall_off + bad_sites
    mains = list(prog.main_words.items())
    viol = []
    for name, a in mains:
        fr = prog.words[a].lnum + 1
        viol.append("(> H_%d %d)" % (a, prog.ndp))
        viol.append("(< L_%d 0)" % a)
        viol.append("(> (+ RH_%d %d) %d)" % (a, fr, prog.nrp))
    lines = [l for l in lines if not l.startswith("(assert")] + [l for l in lines if l.startswith("(assert")]
    script = "\n".join(lines) + "\n(check-sat)\n(get-value (%s))\n(push)\n(assert (or %s))\n(check-sat)\n(pop)\n" % (
        " ".join(allv), " ".join(viol))
    t0 = time.time()
    out = _z3(script)
    res["z3_s"] = round(time.time() - t0, 2)
    res["smt_vars"] = len(allv)
    res["smt_asserts"] = sum(1 for l in lines if l.startswith("(assert"))
    toks = out.split()
    sat1 = toks[0] if toks else "error"
    res["consistent"] = sat1
    vals = {}
    for m in re.finditer(r"\((\w+) (\(- \d+\)|-?\d+)\)", out):
        v = m.group(2)
        vals[m.group(1)] = -int(v[3:-1]) if v.startswith("(") else int(v)
    m2 = re.findall(r"^(sat|unsat|unknown)$", out, re.M)
    res["violation_query"] = m2[1] if len(m2) > 1 else "error"
    if sat1 == "sat":
        for name, a in mains:
            res["max_data_depth"] = vals.get("H_%d" % a)
            res["min_data_depth"] = vals.get("L_%d" % a)
            res["max_return_depth"] = vals.get("RH_%d" % a, 0) + prog.words[a].lnum + 1
        res["word_summaries"] = {str(a): [vals.get("N_%d" % a), vals.get("H_%d" % a), vals.get("L_%d" % a), vals.get("RH_%d" % a)]
                                 for a in prog.words if a in reach_words}
    else:
        res["conflicts"] = stack_conflicts(prog, effects, resume_after_fail, edges, can_return, reach)[:12]
        # depth is path dependent: look for inductive interval bounds instead
        # (Hi/Lo = upper/lower bound of the depth at each instruction; any solution bounds every run)
        L2 = []
        A2 = []
        for a, w in prog.words.items():
            if a not in reach_words or not w.ins:
                continue
            ed = edges(w, can_return)
            for v in ("NH_%d" % a, "NL_%d" % a, "HH_%d" % a, "LL_%d" % a, "RR_%d" % a):
                L2.append("(declare-const %s Int)" % v)
            for n in sorted(reach[a]):
                L2.append("(declare-const Hi_%d_%d Int)" % (a, w.ins[n].ip))
                L2.append("(declare-const Lo_%d_%d Int)" % (a, w.ins[n].ip))
            A2.append("(assert (>= Hi_%d_%d 0))" % (a, w.ins[0].ip))
            A2.append("(assert (<= Lo_%d_%d 0))" % (a, w.ins[0].ip))
            A2.append("(assert (>= RR_%d 0))" % a)
            for n in sorted(reach[a]):
                if ed[n] is None:
                    continue
                hi = "Hi_%d_%d" % (a, w.ins[n].ip)
                lo = "Lo_%d_%d" % (a, w.ins[n].ip)
                Ls, low, pk, rpk = ed[n]
                for (j, eff) in Ls:
                    eh = ("NH_%d" % eff[1]) if isinstance(eff, tuple) else ex(eff)
                    el = ("NL_%d" % eff[1]) if isinstance(eff, tuple) else ex(eff)
                    if j == "ret":
                        A2.append("(assert (>= NH_%d %s))" % (a, hi))
                        A2.append("(assert (<= NL_%d %s))" % (a, lo))
                    elif j is not None:
                        A2.append("(assert (>= Hi_%d_%d (+ %s %s)))" % (a, w.ins[j].ip, hi, eh))
                        A2.append("(assert (<= Lo_%d_%d (+ %s %s)))" % (a, w.ins[j].ip, lo, el))
                pkx = ("HH_%d" % pk[1]) if isinstance(pk, tuple) else ex(pk)
                lox = ("LL_%d" % low[1]) if isinstance(low, tuple) else ex(low)
                rx = ("(+ RR_%d %d)" % (rpk[1], rpk[2])) if isinstance(rpk, tuple) else ex(rpk)
                A2.append("(assert (>= HH_%d (+ %s %s)))" % (a, hi, pkx))
                A2.append("(assert (<= LL_%d (+ %s %s)))" % (a, lo, lox))
                A2.append("(assert (>= RR_%d %s))" % (a, rx))
        safe = []
        for name, a in mains:
            safe.append("(<= HH_%d %d)" % (a, prog.ndp))
            safe.append("(>= LL_%d 0)" % a)
            safe.append("(<= (+ RR_%d %d) %d)" % (a, prog.words[a].lnum + 1, prog.nrp))
        o2 = _z3("\n".join(L2 + A2) + "\n(assert (and %s))\n(check-sat)\n" % " ".join(safe))
        res["interval_bounds_exist"] = (o2.split() or ["error"])[0]
    for e in effects.values():
        if e.note and ("not constant" in e.note or "EFF range" in e.note or "per-literal" in e.note) and e.op in prog.used_natives():
            sites = []
            for (wa, k) in prog.call_sites(e.op):
                sites.append({"word": wa, "ip": prog.words[wa].ins[k].ip, "literal": literal_before(prog, wa, k)})
            res["value_dependent_sites"].append({"native": e.name, "sites": sites})
    res["covered"] = (sat1 == "sat" and res["violation_query"] == "unsat" and not res["not_covered"])
    return res


def stack_conflicts(prog, effects, resume_after_fail, edges, can_return, reach):
    """diagnosis when the equality system is inconsistent: propagate depths word by word
    (callees first) and list the merge points reached with two different depths"""
    out = []
    N = {}
    done = set()

    def solve(a):
        if a in done:
            return
        done.add(a)
        w = prog.words[a]
        for i in w.ins:
            if i.kind == "call":
                solve(i.arg)
        ed = edges(w, can_return)
        D = {0: 0}
        st = [0]
        while st:
            n = st.pop()
            if ed.get(n) is None:
                continue
            for (j, eff) in ed[n][0]:
                if isinstance(eff, tuple):
                    eff = N.get(eff[1])
                    if eff is None:
                        continue
                v = D[n] + eff
                if j == "ret":
                    if a in N and N[a] != v:
                        out.append("word %d: returns with net effect %d and %d" % (a, N[a], v))
                    N.setdefault(a, v)
                elif j is not None:
                    if j in D:
                        if D[j] != v:
                            out.append("word %d ip %d: reached with depth %d and %d" % (a, w.ins[j].ip, D[j], v))
                    else:
                        D[j] = v
                        st.append(j)
    for a in prog.main_words.values():
        solve(a)
    return out


def cli_stack(p, rest):
    effs = native_effects(p)
    for mode in (False, True):
        r = stack_system(p, effs, resume_after_fail=mode)
        print("%s resume_after_fail=%s consistent=%s violation_query=%s covered=%s maxD=%s minD=%s maxR=%s (N_dp=%d N_rp=%d) z3=%.2fs vars=%d asserts=%d" % (
            p.key, mode, r["consistent"], r["violation_query"], r["covered"], r.get("max_data_depth"), r.get("min_data_depth"),
            r.get("max_return_depth"), p.ndp, p.nrp, r["z3_s"], r["smt_vars"], r["smt_asserts"]))
        for x in r["not_covered"][:10]:
            print("   not covered:", x)
        for x in r.get("conflicts", [])[:4]:
            print("   conflict:", x)
        if "interval_bounds_exist" in r:
            print("   inductive interval bounds within the stacks exist:", r["interval_bounds_exist"])
        for x in r["value_dependent_sites"]:
            print("   value-dependent:", x)
    return 0



# ====================================================================== call-site preconditions
# role of the stack operands of natives that take context offsets: name -> [(addr_pos, extent)]
#   addr_pos: stack position (0 = top) of the context offset; extent: byte count (int) or ("pos", k)
#   = stack position of the length operand.  Checked against the code by layer 2 itself: a wrong
#   entry makes the T0_ADDR / region checks of that native fail.
ADDR_OPERANDS = {
    "set8": [(0, 1)], "set16": [(0, 2)], "set32": [(0, 4)],
    "get8": [(0, 1)], "get16": [(0, 2)], "get32": [(0, 4)],
    "read-blob-inner": [(1, ("pos", 0), "or0")],
    "blobcopy": [(2, ("pos", 0)), (1, ("pos", 0))],
    "eqblob": [(2, ("pos", 0)), (1, ("pos", 0))],
    "memcpy": [(2, ("pos", 0)), (1, ("pos", 0))],
    "memcmp": [(2, ("pos", 0)), (1, ("pos", 0))],
    "bzero": [(1, ("pos", 0))],
    "mkrand": [(1, ("pos", 0))],
    "read-chunk-native": [(1, ("pos", 0))],
    "write-blob-chunk": [(1, ("pos", 0))],
    "strlen": [(0, 1)],
}


def address_literals(prog):
    """[(value, expr, Field, [words that push it])] for every literal of the bytecode written with offsetof()"""
    out = {}
    for a, w in prog.words.items():
        for i in w.ins:
            if i.kind == "const" and i.expr and "offsetof" in i.expr:
                out.setdefault(i.arg, [i.expr, []])[1].append(a)
    res = []
    for v, (ex, ws) in sorted(out.items()):
        res.append((v, ex, field_of(prog, v), ws))
    return res


def length_literals(prog):
    """literals written as a symbolic size expression (BUFSIZE / sizeof), with the words that push them"""
    out = {}
    for a, w in prog.words.items():
        for i in w.ins:
            if i.kind == "const" and i.expr and "offsetof" not in i.expr and re.search(r"BUFSIZE|sizeof|_LEN\b|_SIZE\b|MAX_", i.expr):
                out.setdefault(i.arg, [i.expr, []])[1].append(a)
    return [(v, ex, ws) for v, (ex, ws) in sorted(out.items())]


def _pushers(prog, defining_words):
    """words that push a literal = the defining word itself or callers of the constant word"""
    s = set(defining_words)
    for a, w in prog.words.items():
        for i in w.ins:
            if i.kind == "call" and i.arg in defining_words and i.arg in prog.const_words:
                s.add(a)
    return s


def capacity_audit(prog, window=12):
    """pairs (address literal A of an array field, size literal L) that the bytecode uses together:
    L is pushed within `window` instructions of A in the same word (constant words inlined) and A is
    the nearest array address to that L.  Verdict: does [A, A+L) fit the field -- the literal-level
    form of 'length checks before copying into fixed areas'"""
    alit = {v: (ex, f) for (v, ex, f, ws) in address_literals(prog) if f is not None and f.kind in ("A", "W", "U") and f.size > 8}
    llit = {v: ex for (v, ex, ws) in length_literals(prog)}
    pairs = {}
    for a, w in prog.words.items():
        if a in prog.const_words:
            continue
        pushes = []
        for k, i in enumerate(w.ins):
            v = None
            if i.kind == "const":
                v = i.arg
            elif i.kind == "call" and i.arg in prog.const_words:
                v = prog.const_words[i.arg][0]
            if v is not None:
                pushes.append((k, v))
        for (k, v) in pushes:
            if v not in llit:
                continue
            best = None
            for (k2, v2) in pushes:
                if v2 in alit and abs(k2 - k) <= window and (best is None or abs(k2 - k) < best[0]):
                    best = (abs(k2 - k), v2)
            if best:
                pairs.setdefault((best[1], v), []).append(a)
    res = []
    for (av, lv), ws in sorted(pairs.items()):
        ex, f = alit[av]
        cap = f.off + f.size - av
        res.append({"addr": av, "addr_expr": ex, "field": f.path, "field_size": f.size, "len": lv, "len_expr": llit[lv],
                    "words": sorted(set(ws)), "capacity": cap, "fits": lv <= cap})
    return res


def regions(prog):
    """regions the bytecode can address: every address literal; extent = the size literal the
    bytecode pairs with it (derived) or the whole field (stated)"""
    aud = {r["addr"]: r for r in capacity_audit(prog)}
    out = []
    for (v, ex, f, ws) in address_literals(prog):
        if f is None:
            out.append({"addr": v, "expr": ex, "field": None, "len": 0, "how": "literal does not point into a field"})
            continue
        if v in aud:
            r = aud[v]
            out.append({"addr": v, "expr": ex, "field": f.path, "len": r["len"], "how": "derived: bytecode pairs it with literal %s (words %s)" % (r["len_expr"], r["words"])})
        else:
            out.append({"addr": v, "expr": ex, "field": f.path, "len": f.off + f.size - v, "how": "stated: rest of the field"})
    return out


def literal_top_sets(prog):
    """{opcode: sorted literal values} for natives whose EVERY call site is directly preceded by a literal"""
    out = {}
    for op in prog.natives:
        sites = prog.call_sites(op)
        body = prog.natives[op].body
        if not sites or not ("T0_POP" in body or "T0_PEEK" in body):
            continue
        vals = set()
        ok = True
        for (w, k) in sites:
            v = literal_before(prog, w, k)
            if v is None:
                ok = False
                break
            vals.add(v & 0xFFFFFFFF)
        if ok:
            out[op] = sorted(vals)
    return out


def over_spec_ok(prog):
    """the native named `over` copies the second stack entry to the top (same style of proof as dup)"""
    n = prog.native_by_name("over")
    if n is None:
        return False
    src = open(extract_natives(prog)).read()
    hk = hashlib.sha1((src + _harness_hash(prog) + hh(prog.repo) + "over").encode()).hexdigest()[:16]
    cache = os.path.join(BUILD, "overspec-%s-%s.json" % (prog.key, hk))
    if os.path.exists(cache):
        return json.load(open(cache))
    wd = tempfile.mkdtemp(prefix="t0ovr-", dir=BUILD)
    try:
        gb = os.path.join(wd, "over.gb")
        rc, o, e = goto_cc_native(prog, n.op, gb, ["-DC05_EFFECT=1", "-DC05_SPEC_OVER=1"])
        ok = False
        if rc == 0:
            rc, o, e = sh(["cbmc", gb, "--json-ui", "--no-malloc-may-fail", "--unwind", "14", "--unwindset", ",".join(HARNESS_LOOPS),
                           "--unwinding-assertions", "--drop-unused-functions", "--slice-formula"], timeout=300)
            try:
                for m in json.loads(o):
                    if "result" in m:
                        ok = any(r.get("description") == "SPEC over" and r.get("status") == "SUCCESS" for r in m["result"])
            except Exception:
                ok = False
        with open(cache, "w") as f:
            json.dump(ok, f)
        return ok
    finally:
        shutil.rmtree(wd, ignore_errors=True)


def addr_zero_or_len_nonzero(prog, op):
    """for an (addr len) native: at every call site either the length on top is known non-zero
    (`dup ; jump-if-not` guard) or the address is the literal 0 pushed as `0 over`"""
    for (wa, k) in prog.call_sites(op):
        w = prog.words[wa]
        if top_nonzero_before(prog, wa, k):
            continue
        if k >= 2 and w.ins[k].ip not in w.targets() and w.ins[k - 1].ip not in w.targets():
            p1, p2 = w.ins[k - 1], w.ins[k - 2]
            v = p2.arg if p2.kind == "const" else (prog.const_words[p2.arg][0] if p2.kind == "call" and p2.arg in prog.const_words else None)
            if p1.kind == "nat" and prog.natives[p1.arg].name == "over" and v == 0 and over_spec_ok(prog):
                continue
        return False
    return True


def gen_preconditions(prog, effects=None, refine=True):
    """writes t0n_<key>_pre.h into the gen dir; returns a description (for the evidence).
    With effects: also the per-native need/peak (C05_NEED / C05_PEAK for -DOP).
    refine: use facts that need a CBMC proof of `dup` / `over` (which itself compiles against
    this header: a first, unrefined version is written when the file does not exist yet)"""
    d = gen_dir(prog)
    if refine and not os.path.exists(os.path.join(d, "t0n_%s_pre.h" % prog.key)):
        gen_preconditions(prog, effects, refine=False)
    regs = regions(prog)
    lits = literal_top_sets(prog)
    desc = {"regions": regs, "literal_operands": {}, "address_natives": {}}
    o = ["/* GENERATED by t0tool.gen_preconditions from the bytecode of %s */\n" % prog.rel]
    fkind = {f.path: f for f in layout(prog)}
    o.append("/* array regions: address arithmetic of the T0 code stays inside these */\n")
    o.append("static int\nc05_in_region(uint32_t addr, uint32_t len)\n{\n")
    for r in regs:
        if r["field"] is None:
            continue
        fk = fkind.get(r["field"])
        if fk is None or fk.kind == "S" or fk.kind == "P" or fk.size <= 8:
            continue
        o.append("\tif (addr >= %du && len <= %du && addr - %du <= %du - len) return 1;   /* %s (%s): %s */\n" % (
            r["addr"], r["len"], r["addr"], r["len"], r["field"], r["expr"], r["how"]))
    o.append("\treturn 0;\n}\n\n")
    for r in regs:
        if r["field"] is not None:
            o.append("#define C05_REGION_LEN_%s %du\n" % (re.sub(r"\W", "_", r["field"]), r["len"]))
    if effects is not None:
        o.append("/* need / peak of each native, proved by CBMC (t0tool.native_effects) */\n")
        first = True
        for n in prog.natives.values():
            e = effects.get(n.op)
            need, peak = (e.need, e.peak) if (e is not None and e.need is not None) else (0, 0)
            m = re.search(r"per-literal: (\{.*\})", (e.note or "") if e else "")
            if m:
                tab = json.loads(m.group(1))
                need = max([need] + [v[1] for v in tab.values()])
                peak = max([peak] + [v[2] for v in tab.values()])
            o.append("#%s OP == %d\n#define C05_NEED %d\n#define C05_PEAK %d\n" % ("if" if first else "elif", n.op, need, peak))
            first = False
        o.append("#endif\n")
    o.append("#ifndef C05_NEED\n#define C05_NEED 0\n#define C05_PEAK 0\n#endif\n")
    o.append("#define C05_TOP(k)  (T0N_STK(c)->dp_stack[t0n_dpi - 1 - (k)])\n")
    o.append("static void\nc05_precond(T0N_CTXT *c, unsigned op)\n{\n\tswitch (op) {\n")
    for n in prog.natives.values():
        conds = []
        depth = 0
        if n.name in ADDR_OPERANDS:
            al = []
            for ent in ADDR_OPERANDS[n.name]:
                pos, ext = ent[0], ent[1]
                e = "C05_TOP(%d)" % ext[1] if isinstance(ext, tuple) else "%du" % ext
                depth = max(depth, pos + 1, (ext[1] + 1) if isinstance(ext, tuple) else 0)
                c = "c05_in_region(C05_TOP(%d), %s)" % (pos, e)
                if pos == 0 and not isinstance(ext, tuple):
                    # scalar accessors: exactly the literal addresses used at their call sites,
                    # array regions only if some call site computes its address
                    sites = prog.call_sites(n.op)
                    lv = sorted(set(literal_before(prog, w_, k_) & 0xFFFFFFFF for (w_, k_) in sites if literal_before(prog, w_, k_) is not None))
                    nonlit = any(literal_before(prog, w_, k_) is None for (w_, k_) in sites)
                    alts = ["C05_TOP(0) == %du" % v for v in lv]
                    if nonlit or not sites:
                        alts.append(c)
                    c = "(" + " || ".join(alts) + ")"
                    al.append({"literal_addresses": lv, "computed_address_sites": sum(1 for (w_, k_) in sites if literal_before(prog, w_, k_) is None)})
                if len(ent) > 2 and ent[2] == "or0":
                    if refine and isinstance(ext, tuple) and addr_zero_or_len_nonzero(prog, n.op):
                        c = "(C05_TOP(%d) == 0 || (C05_TOP(%d) != 0 && %s))" % (pos, ext[1], c)
                    else:
                        c = "(C05_TOP(%d) == 0 || %s)" % (pos, c)
                conds.append(c)
                al.append({"operand": pos, "extent": ext if not isinstance(ext, tuple) else "operand %d" % ext[1]})
            desc["address_natives"][n.name] = al
        elif n.op in lits and len(lits[n.op]) <= 64:
            depth = 1
            conds.append("(" + " || ".join("C05_TOP(0) == %du" % v for v in lits[n.op]) + ")")
            desc["literal_operands"][n.name] = lits[n.op]
        if conds:
            o.append("\tcase %d: /* %s */\n\t\tASSUME(t0n_dpi >= %d);\n" % (n.op, n.name, depth))
            for c in conds:
                o.append("\t\tASSUME(%s);\n" % c)
            o.append("\t\tbreak;\n")
    o.append("\tdefault:\n\t\tbreak;\n\t}\n\t(void)c;\n}\n")
    pth = os.path.join(d, "t0n_%s_pre.h" % prog.key)
    txt = "".join(o)
    with _gen_lock:
        if not os.path.exists(pth) or open(pth).read() != txt:
            tmpn = pth + ".tmp%d.%d" % (os.getpid(), threading.get_ident())
            with open(tmpn, "w") as f:
                f.write(txt)
            os.replace(tmpn, pth)
    return desc


def ensure_pre(prog):
    pth = os.path.join(gen_dir(prog), "t0n_%s_pre.h" % prog.key)
    with _gen_lock:
        if not os.path.exists(pth):
            gen_preconditions(prog, refine=False)
    return pth


def cli_sites(p, rest):
    print(p.key, "capacity audit:")
    for r in capacity_audit(p):
        print("   %s" % r)
    print(p.key, "regions:")
    for r in regions(p):
        print("   %s" % r)
    lt = literal_top_sets(p)
    for op, v in lt.items():
        print("   literal top operand at every site of %-24s: %s" % (p.natives[op].name, v[:20]))
    for name in ADDR_OPERANDS:
        n = p.native_by_name(name)
        if n:
            sites = p.call_sites(n.op)
            nl = sum(1 for (w, k) in sites if literal_before(p, w, k) is not None)
            print("   address native %-20s sites=%d with literal top=%d" % (name, len(sites), nl))
    return 0



# ====================================================================== translation validation of E2
def hooked_copy(prog):
    """text of the real generated file with a per-instruction trace hook injected into T0_NEXT
    (the copy lives in the build directory; /repo is never modified)"""
    t = prog.text
    old = re.search(r"^#define T0_NEXT\(t0ipp\)\s+\(pgm_read_byte\(\(\*t0ipp\)\+\+\)\)$", t, re.M)
    if not old:
        raise RuntimeError("T0_NEXT definition not recognised in " + prog.path)
    hook = "t0v_hook_%s" % prog.key
    new = ("void %s(void *t0ctx, uint32_t *dp, uint32_t *rp, const unsigned char *ip);\n"
           "void %s_exit(void *t0ctx);\n"
           "#define T0_NEXT(t0ipp)   (%s(t0ctx, dp, rp, *(t0ipp)), pgm_read_byte((*t0ipp)++))") % (hook, hook, hook)
    t2 = t[:old.start()] + new + t[old.end():]
    # second hook: right after the interpreter saved its registers on exit (the caller may go on
    # modifying the context before the driver regains control)
    tail = "\t((t0_context *)t0ctx)->ip = ip;\n}"
    k = t2.index(tail, t2.index("t0_exit:"))
    return t2[:k] + "\t((t0_context *)t0ctx)->ip = ip;\n\t%s_exit(t0ctx);\n}" % hook + t2[k + len(tail):]


def validate(prog, timeout=1500):
    """translation validation: returns dict(natives, exercised, agreeing, disagreeing=[names], executions)"""
    src = open(extract_natives(prog)).read()
    drv = open(os.path.join(HERE, "t0val_driver.c")).read()
    hsx = os.path.join(HERE, "t0val_hs.h")
    if os.path.exists(hsx):
        drv += open(hsx).read()
    inputs = hashlib.sha1()
    for pat in ("test/x509/*", "samples/*"):
        for f in sorted(glob.glob(os.path.join(prog.repo, pat))):
            if os.path.isfile(f):
                inputs.update(f.encode())
                inputs.update(open(f, "rb").read())
    hk = hashlib.sha1((src + drv + hh(prog.repo) + open(os.path.join(HERE, "t0n_vm.h")).read() + inputs.hexdigest() + "val-v3").encode()).hexdigest()[:16]
    cache = os.path.join(BUILD, "validate-%s-%s.json" % (prog.key, hk))
    if os.path.exists(cache) and not os.environ.get("T0TOOL_REVALIDATE"):
        return json.load(open(cache))
    wd = os.path.join(BUILD, "val-%s-%s" % (prog.key, hk))
    shutil.rmtree(wd, ignore_errors=True)
    os.makedirs(wd)
    res = {"program": prog.key, "file": prog.rel, "natives": len(prog.natives), "exercised": 0, "agreeing": 0,
           "disagreeing": [], "executions": 0, "error": None}
    try:
        sys.path.insert(0, ROOT)
        import verif
        # portable (aligned) memory access paths: the library's deliberate unaligned loads would stop UBSan
        defs = repo_defs(prog.repo) + ["-DBEARSSL_ESP8266_VERIF", "-DBR_LE_UNALIGNED=0", "-DBR_BE_UNALIGNED=0"]
        ar = verif.native_archive("host-aligned", defs)
        cc = ["gcc", "-g", "-O1", "-w", "-fsanitize=address,undefined", "-fno-sanitize-recover=undefined",
              "-I" + os.path.join(prog.repo, "inc"), "-I" + os.path.join(prog.repo, "src"), "-I" + os.path.join(prog.repo, "samples"),
              "-I" + HERE] + defs
        hooked = os.path.join(wd, "hooked_%s.c" % prog.key)
        with open(hooked, "w") as f:
            f.write(hooked_copy(prog))
        steps = [cc + ["-c", hooked, "-o", os.path.join(wd, "hooked.o")],
                 cc + ["-DT0N_EXPORT=1", "-c", extract_natives(prog), "-o", os.path.join(wd, "e2.o")]]
        for c in steps:
            rc, o, e = sh(c, timeout=600)
            if rc != 0:
                res["error"] = "compile failed: " + (o + e)[-1500:]
                return res
        rc, o, e = sh(["nm", "-g", "--defined-only", os.path.join(wd, "e2.o")])
        syms = [l.split()[-1] for l in o.splitlines() if l.strip() and not l.split()[-1].startswith("t0e2_")]
        with open(os.path.join(wd, "redef.txt"), "w") as f:
            for sname in syms:
                f.write("%s t0e2x_%s\n" % (sname, sname))
        rc, o, e = sh(["objcopy", "--redefine-syms=" + os.path.join(wd, "redef.txt"), os.path.join(wd, "e2.o")])
        if rc != 0:
            res["error"] = "objcopy failed: " + e[-500:]
            return res
        exe = os.path.join(wd, "t0val")
        ign = []
        if prog.key == "hss" and prog.native_by_name("call-policy-handler"):
            f_ = [x for x in layout(prog) if x.path == "sign_hash_id"]
            if f_:
                ign = ["-DT0V_IGN_OP=%d" % prog.native_by_name("call-policy-handler").op, "-DT0V_IGN_OFF=%d" % f_[0].off, "-DT0V_IGN_LEN=%d" % f_[0].size]
                res["ignored"] = "call-policy-handler: bytes of sign_hash_id (copy of choices.algo_id, which the policy handler leaves unset for RSA key exchange: indeterminate value)"
        rc, o, e = sh(cc + ign + ["-DT0V_KEY_%s=1" % prog.key, "-DT0V_HOOK=t0v_hook_%s" % prog.key, "-DT0V_INTERP=%d" % prog.interp,
                            os.path.join(HERE, "t0val_driver.c"), os.path.join(wd, "hooked.o"), os.path.join(wd, "e2.o"), ar, "-o", exe], timeout=600)
        if rc != 0:
            res["error"] = "link failed: " + (o + e)[-2000:]
            return res
        env = dict(os.environ)
        env["ASAN_OPTIONS"] = "detect_leaks=0"
        try:
            rc, o, e = sh([exe, prog.repo], timeout=timeout, env=env)
        except subprocess.TimeoutExpired:
            res["error"] = "validation run timed out"
            return res
        if rc != 0:
            res["error"] = "validation driver exit %d: %s" % (rc, (e or o)[-1500:])
        per = {}
        for ln in o.splitlines():
            m = re.match(r"NATIVE (\d+) (\d+) (\d+) (\d+)", ln)
            if m:
                op, cnt, ag, bad = [int(x) for x in m.groups()]
                per[op] = (cnt, ag, bad)
        res["per_native"] = {prog.natives[op].name: list(v) for op, v in per.items() if op in prog.natives}
        res["exercised"] = sum(1 for v in per.values() if v[0] > 0)
        res["agreeing"] = sum(1 for v in per.values() if v[0] > 0 and v[2] == 0)
        res["disagreeing"] = [prog.natives[op].name for op, v in per.items() if v[2] > 0]
        res["not_exercised"] = [prog.natives[op].name for op, v in per.items() if v[0] == 0]
        res["executions"] = sum(v[0] for v in per.values())
        res["stderr_tail"] = e[-600:] if res["disagreeing"] else ""
        if res["error"] is None:
            with open(cache + ".tmp", "w") as f:
                json.dump(res, f)
            os.replace(cache + ".tmp", cache)
        return res
    finally:
        if not os.environ.get("T0TOOL_KEEP"):
            shutil.rmtree(wd, ignore_errors=True)


def cli_validate(p, rest):
    r = validate(p)
    print("%s: natives=%d exercised=%d agreeing=%d disagreeing=%s executions=%d error=%s" % (
        p.key, r["natives"], r["exercised"], r["agreeing"], r["disagreeing"], r["executions"], r["error"]))
    print("   not exercised:", r.get("not_exercised"))
    if r.get("stderr_tail"):
        print(r["stderr_tail"])
    return 1 if (r["error"] or r["disagreeing"]) else 0



def push_gated(prog):
    """CBMC: does the push / append entry point refuse to resume the coroutine once err != 0?
    (True / False / None = not applicable or undecided); harness/C05_pushgate.c"""
    if prog.key not in ("pkey", "skey", "x509dec", "x509min"):
        return None
    src = open(extract_natives(prog)).read()
    hpath = os.path.join(HARN, "C05_pushgate.c")
    hk = hashlib.sha1((src + open(hpath).read() + hh(prog.repo)).encode()).hexdigest()[:16]
    cache = os.path.join(BUILD, "pushgate-%s-%s.json" % (prog.key, hk))
    if os.path.exists(cache):
        return json.load(open(cache))
    wd = tempfile.mkdtemp(prefix="t0pg-", dir=BUILD)
    try:
        gb = os.path.join(wd, "pg.gb")
        cmd = ["goto-cc", "-I" + os.path.join(prog.repo, "inc"), "-I" + os.path.join(prog.repo, "src"), "-I" + HARN, "-I" + HERE,
               "-I" + gen_dir(prog), "-DVERIF_CBMC=1", "-DC05_KEY_%s=1" % prog.key] + repo_defs(prog.repo) + \
              ["-o", gb, hpath, os.path.join(HARN, "strmodel.c")]
        rc, o, e = sh(cmd, timeout=300)
        res = None
        if rc == 0:
            rc, o, e = sh(["cbmc", gb, "--json-ui", "--no-malloc-may-fail", "--unwind", "6", "--unwinding-assertions",
                           "--drop-unused-functions", "--no-standard-checks"], timeout=300)
            try:
                for m in json.loads(o):
                    if "result" in m:
                        st = [r.get("status") for r in m["result"] if "not resumed once the decoder has failed" in r.get("description", "")]
                        if st:
                            res = all(x == "SUCCESS" for x in st)
            except Exception:
                res = None
        with open(cache, "w") as f:
            json.dump(res, f)
        return res
    finally:
        shutil.rmtree(wd, ignore_errors=True)


def cli_layout(p, rest):
    for f in layout(p):
        print("%s %5d %5d %s%-4s %s" % (p.key, f.off, f.size, f.kind, f.count if f.count > 1 else "", f.path))


def cli_gen(p, rest):
    d = gen_dir(p)
    print(p.key, d)
    rc, o, e = sh(["gcc", "-w", "-c", "-O0", "-o", os.devnull, os.path.join(d, "t0n_%s.c" % p.key), "-I" + HERE,
                   "-I" + os.path.join(p.repo, "inc"), "-I" + os.path.join(p.repo, "src")] + repo_defs(p.repo))
    print("   compiles:", rc == 0, e[-3000:])
    return rc


_prog_cache = {}


def load(key, repo=None):
    r = repo_dir(repo)
    k = (key, r)
    if k not in _prog_cache:
        _prog_cache[k] = T0Program(key, r)
    return _prog_cache[k]


def _cli():
    a = sys.argv[1:]
    if len(a) < 2:
        print(__doc__)
        return 2
    cmd = a[0]
    keys = list(PROGRAMS) if a[1] == "all" else a[1].split(",")
    rc = 0
    for key in keys:
        p = load(key)
        if cmd == "dump":
            print("%s: %s sha=%s code=%d data=%d words=%d natives=%d interp=%d ndp=%d nrp=%d ctx=%s(%d bytes) entries=%s" % (
                key, p.rel, p.sha, len(p.code), len(p.data), len(p.words), len(p.natives), p.interp, p.ndp, p.nrp,
                p.ctx_type, p.ctx_size, p.entries))
            print("   recursive:", p.recursive_words(), " unreachable words:", sorted(set(p.words) - p.reachable_words()),
                  " unused natives:", [p.natives[n].name for n in sorted(set(p.natives) - p.used_natives())])
        elif cmd == "dis":
            p.dis()
        elif cmd == "natives":
            for n in p.natives.values():
                print("%s %3d %-28s %s line %d" % (key, n.op, n.name, n.cname, n.line))
        else:
            import importlib
            mod = sys.modules[__name__]
            fn = getattr(mod, "cli_" + cmd, None)
            if fn is None:
                print("unknown command", cmd)
                return 2
            rc |= fn(p, a[2:]) or 0
    return rc


if __name__ == "__main__":
    sys.exit(_cli())
