/*
 * t0val_hs.h -- translation-validation driver for ssl_hs_client.c / ssl_hs_server.c:
 * in-memory TLS client and server built from the real library (public API only);
 * the side under validation is the hooked copy, the peer is the library's own code.
 * Scenarios: several cipher suites (RSA / ECDHE_RSA key exchange, CBC / GCM /
 * ChaCha20), TLS 1.0 and 1.2, ALPN, maximum fragment length, session resumption,
 * renegotiation, application data, closure, and a few corrupted flights.
 */
#include "chain-rsa.h"
#include "key-rsa.h"

/* X.509 "validator" that accepts any chain and extracts the leaf key (from findings/hs_demo.c) */
typedef struct {
	const br_x509_class *vtable;
	br_x509_decoder_context dc;
	int ncert;
} xany_ctx;
static void xa_start_chain(const br_x509_class **c, const char *sn) { (void)sn; ((xany_ctx *)c)->ncert = 0; }
static void xa_start_cert(const br_x509_class **c, uint32_t len) { xany_ctx *x = (xany_ctx *)c; (void)len; if (x->ncert == 0) br_x509_decoder_init(&x->dc, 0, 0, 0, 0); }
static void xa_append(const br_x509_class **c, const unsigned char *b, size_t len) { xany_ctx *x = (xany_ctx *)c; if (x->ncert == 0) br_x509_decoder_push(&x->dc, b, len); }
static void xa_end_cert(const br_x509_class **c) { ((xany_ctx *)c)->ncert++; }
static unsigned xa_end_chain(const br_x509_class **c) { (void)c; return 0; }
static const br_x509_pkey *xa_get_pkey(const br_x509_class *const *c, unsigned *usages)
{ xany_ctx *x = (xany_ctx *)c; if (usages) *usages = BR_KEYTYPE_KEYX | BR_KEYTYPE_SIGN; return br_x509_decoder_get_pkey(&x->dc); }
static const br_x509_class xany_vtable = { sizeof(xany_ctx), xa_start_chain, xa_start_cert, xa_append, xa_end_cert, xa_end_chain, xa_get_pkey };

static br_ssl_client_context cc;
static br_ssl_server_context sc;
static br_x509_minimal_context xm;
static xany_ctx xa;
static unsigned char cbuf[BR_SSL_BUFSIZE_BIDI], sbuf[BR_SSL_BUFSIZE_BIDI];
static unsigned char cache_store[4096];
static br_ssl_session_cache_lru cache;
static const char *alpn[] = { "h2", "http/1.1" };

#if defined(T0V_KEY_hsc)
#define AFTER() t0v_after_run(&cc)
#else
#define AFTER() t0v_after_run(&sc)
#endif

static void
regions(void)
{
	t0v_unregister_all();
#if defined(T0V_KEY_hsc)
	t0v_register(cbuf, sizeof cbuf);
	t0v_register(&xa, sizeof xa);
#else
	t0v_register(sbuf, sizeof sbuf);
	t0v_register(cache_store, sizeof cache_store);
	t0v_register(&cache, sizeof cache);
#endif
}

static void
client_setup(const uint16_t *suites, size_t nsuites, unsigned vmin, unsigned vmax, size_t buflen, int bidi, int use_alpn, int resume)
{
	if (!resume) {
		br_ssl_client_init_full(&cc, &xm, NULL, 0);
		xa.vtable = &xany_vtable;
		br_ssl_engine_set_x509(&cc.eng, &xa.vtable);
	}
	if (suites) br_ssl_engine_set_suites(&cc.eng, suites, nsuites);
	br_ssl_engine_set_versions(&cc.eng, vmin, vmax);
	if (use_alpn) br_ssl_engine_set_protocol_names(&cc.eng, alpn, 2);
	br_ssl_engine_set_buffer(&cc.eng, cbuf, buflen, bidi);
	br_ssl_engine_inject_entropy(&cc.eng, "0123456789abcdef0123456789abcdef", 32);
	br_ssl_client_reset(&cc, "localhost", resume); AFTER();
}
static void
server_setup(size_t buflen, int bidi, int use_alpn, int use_cache, int fresh)
{
	if (fresh) {
		br_ssl_server_init_full_rsa(&sc, CHAIN, CHAIN_LEN, &RSA);
		if (use_cache) {
			br_ssl_session_cache_lru_init(&cache, cache_store, sizeof cache_store);
			br_ssl_server_set_cache(&sc, &cache.vtable);
		}
	}
	if (use_alpn) br_ssl_engine_set_protocol_names(&sc.eng, alpn + 1, 1);
	br_ssl_engine_set_buffer(&sc.eng, sbuf, buflen, bidi);
	br_ssl_engine_inject_entropy(&sc.eng, "fedcba9876543210fedcba9876543210", 32);
	br_ssl_server_reset(&sc); AFTER();
}
static unsigned long corrupt_at;      /* 0 = never; else the n-th byte moved client->server is flipped */
static unsigned long moved;
static size_t
pump(br_ssl_engine_context *a, br_ssl_engine_context *b, size_t max, int c2s)
{
	size_t la, lb, n;
	unsigned char *pa = br_ssl_engine_sendrec_buf(a, &la);
	unsigned char *pb = br_ssl_engine_recvrec_buf(b, &lb);
	if (!pa || !pb) return 0;
	n = la < lb ? la : lb;
	if (n > max) n = max;
	memcpy(pb, pa, n);
	if (corrupt_at && c2s >= 0) {
		if (moved < corrupt_at && moved + n >= corrupt_at) pb[corrupt_at - moved - 1] ^= 0x55;
		moved += n;
	}
	br_ssl_engine_sendrec_ack(a, n); AFTER();
	br_ssl_engine_recvrec_ack(b, n); AFTER();
	return n;
}
static int
handshake(size_t chunk)
{
	int i;
	for (i = 0; i < 200000; i ++) {
		unsigned s1 = br_ssl_engine_current_state(&cc.eng), s2 = br_ssl_engine_current_state(&sc.eng);
		if ((s1 & BR_SSL_CLOSED) || (s2 & BR_SSL_CLOSED)) return 0;
		if ((s1 & BR_SSL_SENDAPP) && (s2 & BR_SSL_SENDAPP)) return 1;
		if (!pump(&cc.eng, &sc.eng, chunk, 1) && !pump(&sc.eng, &cc.eng, chunk, 0)) return 0;
	}
	return 0;
}
static void
exchange(void)
{
	size_t l;
	unsigned char *p = br_ssl_engine_sendapp_buf(&cc.eng, &l);
	int i;
	if (p && l >= 5) { memcpy(p, "hello", 5); br_ssl_engine_sendapp_ack(&cc.eng, 5); AFTER(); br_ssl_engine_flush(&cc.eng, 0); AFTER(); }
	for (i = 0; i < 50 && (pump(&cc.eng, &sc.eng, (size_t)-1, 1) || pump(&sc.eng, &cc.eng, (size_t)-1, 0)); i ++) { }
	p = br_ssl_engine_recvapp_buf(&sc.eng, &l);
	if (p) { br_ssl_engine_recvapp_ack(&sc.eng, l); AFTER(); }
	p = br_ssl_engine_sendapp_buf(&sc.eng, &l);
	if (p && l >= 3) { memcpy(p, "yes", 3); br_ssl_engine_sendapp_ack(&sc.eng, 3); AFTER(); br_ssl_engine_flush(&sc.eng, 0); AFTER(); }
	for (i = 0; i < 50 && (pump(&cc.eng, &sc.eng, (size_t)-1, 1) || pump(&sc.eng, &cc.eng, (size_t)-1, 0)); i ++) { }
	p = br_ssl_engine_recvapp_buf(&cc.eng, &l);
	if (p) { br_ssl_engine_recvapp_ack(&cc.eng, l); AFTER(); }
}
static void
hs_finish(int who_closes)
{
	int i;
	if (who_closes == 0) { br_ssl_engine_close(&cc.eng); AFTER(); } else { br_ssl_engine_close(&sc.eng); AFTER(); }
	for (i = 0; i < 50 && (pump(&cc.eng, &sc.eng, (size_t)-1, 1) || pump(&sc.eng, &cc.eng, (size_t)-1, 0)); i ++) { }
}

static void
drive(const char *repo)
{
	static const uint16_t s_rsa_cbc[] = { BR_TLS_RSA_WITH_AES_128_CBC_SHA };
	static const uint16_t s_rsa_cbc256[] = { BR_TLS_RSA_WITH_AES_256_CBC_SHA256 };
	static const uint16_t s_rsa_gcm[] = { BR_TLS_RSA_WITH_AES_128_GCM_SHA256 };
	static const uint16_t s_rsa_ccm[] = { BR_TLS_RSA_WITH_AES_128_CCM };
	static const uint16_t s_rsa_3des[] = { BR_TLS_RSA_WITH_3DES_EDE_CBC_SHA };
	static const uint16_t s_ecdhe_gcm[] = { BR_TLS_ECDHE_RSA_WITH_AES_128_GCM_SHA256 };
	static const uint16_t s_ecdhe_gcm384[] = { BR_TLS_ECDHE_RSA_WITH_AES_256_GCM_SHA384 };
	static const uint16_t s_ecdhe_chapol[] = { BR_TLS_ECDHE_RSA_WITH_CHACHA20_POLY1305_SHA256 };
	static const uint16_t s_ecdhe_cbc[] = { BR_TLS_ECDHE_RSA_WITH_AES_128_CBC_SHA };
	static const uint16_t s_unknown[] = { 0x1301 };
	static const struct { const uint16_t *s; unsigned vmin, vmax; size_t chunk; int alpn; } sc_[] = {
		{ s_rsa_cbc, BR_TLS10, BR_TLS12, (size_t)-1, 0 }, { s_rsa_cbc, BR_TLS10, BR_TLS10, 1, 0 },
		{ s_rsa_cbc256, BR_TLS12, BR_TLS12, 7, 1 }, { s_rsa_gcm, BR_TLS12, BR_TLS12, 100, 1 },
		{ s_rsa_ccm, BR_TLS12, BR_TLS12, 100, 0 }, { s_rsa_3des, BR_TLS10, BR_TLS11, 100, 0 },
		{ s_ecdhe_gcm, BR_TLS12, BR_TLS12, (size_t)-1, 1 }, { s_ecdhe_gcm384, BR_TLS12, BR_TLS12, 13, 0 },
		{ s_ecdhe_chapol, BR_TLS12, BR_TLS12, 100, 0 }, { s_ecdhe_cbc, BR_TLS10, BR_TLS12, 5, 1 },
		{ s_unknown, BR_TLS12, BR_TLS12, 100, 0 }, { NULL, BR_TLS10, BR_TLS12, 100, 1 },
	};
	unsigned i;
	unsigned long k;
	(void)repo;
	regions();
	for (i = 0; i < sizeof sc_ / sizeof sc_[0]; i ++) {
		corrupt_at = 0;
		client_setup(sc_[i].s, 1, sc_[i].vmin, sc_[i].vmax, sizeof cbuf, 1, sc_[i].alpn, 0);
		server_setup(sizeof sbuf, 1, sc_[i].alpn, 1, 1);
		if (handshake(sc_[i].chunk)) {
			exchange();
			/* renegotiation, then resumption on a fresh connection */
			if (i % 3 == 0) { br_ssl_engine_renegotiate(&cc.eng); AFTER(); handshake(100); exchange(); }
			if (i % 3 == 1) { br_ssl_engine_renegotiate(&sc.eng); AFTER(); handshake(100); exchange(); }
			hs_finish((int)(i & 1));
			client_setup(sc_[i].s, 1, sc_[i].vmin, sc_[i].vmax, 837 + 597, 1, 0, 1);
			server_setup(16384 + 325, 0, 0, 1, 0);
			if (handshake(50)) { exchange(); hs_finish(1); }
		}
	}
	/* small (half-duplex) buffers: maximum fragment length negotiation */
	corrupt_at = 0;
	client_setup(s_ecdhe_gcm, 1, BR_TLS12, BR_TLS12, 837, 0, 0, 0);
	server_setup(sizeof sbuf, 1, 0, 0, 1);
	if (handshake(100)) { exchange(); hs_finish(0); }
	/* corrupted flights: one byte of the client->server (resp. every moved) stream flipped */
	for (k = 1; k < 400; k += 3) {
		corrupt_at = k; moved = 0;
		client_setup(k & 1 ? s_rsa_cbc : s_ecdhe_gcm, 1, BR_TLS10, BR_TLS12, sizeof cbuf, 1, (int)(k & 2), 0);
		server_setup(sizeof sbuf, 1, (int)(k & 2), 0, 1);
		if (handshake(64)) { exchange(); hs_finish(0); }
	}
}
