/*
 * t0val_driver.c -- translation validation of encoder E2 (t0tool.py).
 *
 * Linked with (a) an out-of-tree COPY of the real generated T0 file whose
 * T0_NEXT macro calls t0v_hook() before every instruction fetch, (b) the E2
 * output (one function per native word, external symbols renamed) and (c) the
 * natively compiled library of the same tree.
 *
 * The REAL interpreter runs on the repository's own inputs.  Around every
 * executed native word the hook records the VM/context state before and after;
 * the state is then rolled back and the EXTRACTED function is executed in place
 * on the same pre-state; the two post-states (context bytes, registered
 * external regions, stack indices, yield flag) must be identical.
 *
 * usage: t0val <repo dir>      output: one line "NATIVE <op> <executions> <agree> <disagree>" per opcode
 */
#include <stdio.h>
#include <stdlib.h>
#include <string.h>
#include <stdint.h>
#include <dirent.h>
#include "bearssl.h"
#include "inner.h"

#if defined(T0V_KEY_pkey)
#define CTXT br_pkey_decoder_context
#define STK(c) (c)
#define T0V_EXEC t0e2_pkey_exec
#elif defined(T0V_KEY_skey)
#define CTXT br_skey_decoder_context
#define STK(c) (c)
#define T0V_EXEC t0e2_skey_exec
#elif defined(T0V_KEY_x509dec)
#define CTXT br_x509_decoder_context
#define STK(c) (c)
#define T0V_EXEC t0e2_x509dec_exec
#elif defined(T0V_KEY_x509min)
#define CTXT br_x509_minimal_context
#define STK(c) (c)
#define T0V_EXEC t0e2_x509min_exec
#elif defined(T0V_KEY_pem)
#define CTXT br_pem_decoder_context
#define STK(c) (c)
#define T0V_EXEC t0e2_pem_exec
#elif defined(T0V_KEY_hsc)
#define CTXT br_ssl_client_context
#define STK(c) (&(c)->eng)
#define T0V_EXEC t0e2_hsc_exec
#elif defined(T0V_KEY_hss)
#define CTXT br_ssl_server_context
#define STK(c) (&(c)->eng)
#define T0V_EXEC t0e2_hss_exec
#endif

void T0V_EXEC(void *ctx, unsigned op, uint32_t *dpi, uint32_t *rpi, int *co);

/* ------------------------------------------------------------------ bookkeeping */
static unsigned long st_count[256], st_agree[256], st_bad[256];
static unsigned t0v_interp = T0V_INTERP;

#define MAXREG 16
static struct { unsigned char *p; size_t n; unsigned char *s_pre, *s_real; } reg[MAXREG];
static int nreg;
static void
t0v_register(void *p, size_t n)
{
	int i;
	for (i = 0; i < nreg; i ++) if (reg[i].p == (unsigned char *)p) { return; }
	if (nreg == MAXREG) { fprintf(stderr, "too many regions\n"); exit(2); }
	reg[nreg].p = p; reg[nreg].n = n; reg[nreg].s_pre = malloc(n); reg[nreg].s_real = malloc(n);
	nreg ++;
}
static void t0v_unregister_all(void) { int i; for (i = 0; i < nreg; i ++) { free(reg[i].s_pre); free(reg[i].s_real); } nreg = 0; }

static int pending;
static CTXT *p_ctx;
static unsigned p_op;
static uint32_t p_dpi, p_rpi;
static const unsigned char *p_ip;
static unsigned char s_pre[sizeof(CTXT)], s_real[sizeof(CTXT)];
static int verbose_bad = 5;

static void
finish(uint32_t *dp, uint32_t *rp, const unsigned char *ip, int yielded)
{
	CTXT *c = p_ctx;
	uint32_t r_dpi = (uint32_t)(dp - STK(c)->dp_stack), r_rpi = (uint32_t)(rp - STK(c)->rp_stack);
	uint32_t e_dpi = p_dpi, e_rpi = p_rpi;
	int e_co = 0, i, ok = 1;
	size_t cpu_off = (size_t)((unsigned char *)&STK(c)->cpu - (unsigned char *)c), u;
	pending = 0;
	/* real post-state */
	memcpy(s_real, c, sizeof *c);
	for (i = 0; i < nreg; i ++) memcpy(reg[i].s_real, reg[i].p, reg[i].n);
	/* roll back, run the extracted function in place */
	memcpy(c, s_pre, sizeof *c);
	for (i = 0; i < nreg; i ++) memcpy(reg[i].p, reg[i].s_pre, reg[i].n);
	T0V_EXEC(c, p_op, &e_dpi, &e_rpi, &e_co);
	/* compare */
	if (e_dpi != r_dpi || e_rpi != r_rpi || e_co != yielded || ip != p_ip) ok = 0;
	for (u = 0; u < sizeof *c; u ++) {
		if (u >= cpu_off && u < cpu_off + sizeof STK(c)->cpu) continue;
#ifdef T0V_IGN_OP
		/* documented indeterminate value: the native copies a field of a local structure that the
		   callee may leave unset (call-policy-handler: choices.algo_id -> sign_hash_id) */
		if (p_op == T0V_IGN_OP && u >= T0V_IGN_OFF && u < T0V_IGN_OFF + T0V_IGN_LEN) continue;
#endif
		if (((unsigned char *)c)[u] != s_real[u]) { ok = 0; if (verbose_bad > 0) fprintf(stderr, "  op %u: context byte %lu differs (real %02x, extracted %02x)\n", p_op, (unsigned long)u, s_real[u], ((unsigned char *)c)[u]); break; }
	}
	for (i = 0; i < nreg && ok; i ++) if (memcmp(reg[i].p, reg[i].s_real, reg[i].n) != 0) { ok = 0; if (verbose_bad > 0) fprintf(stderr, "  op %u: external region %d differs\n", p_op, i); }
	st_count[p_op] ++;
	if (ok) st_agree[p_op] ++; else {
		st_bad[p_op] ++;
		if (verbose_bad > 0) { verbose_bad --; fprintf(stderr, "DISAGREE op %u: dpi real %u / extracted %u, rpi %u / %u, yield %d / %d\n", p_op, r_dpi, e_dpi, r_rpi, e_rpi, yielded, e_co); }
	}
	/* continue from the real post-state */
	memcpy(c, s_real, sizeof *c);
	for (i = 0; i < nreg; i ++) memcpy(reg[i].p, reg[i].s_real, reg[i].n);
}

void
T0V_HOOK(void *t0ctx, uint32_t *dp, uint32_t *rp, const unsigned char *ip)
{
	CTXT *c = (CTXT *)(void *)((unsigned char *)t0ctx - ((unsigned char *)&STK((CTXT *)0)->cpu - (unsigned char *)0));
	unsigned op;
	int i;
	if (pending) {
		finish(dp, rp, ip, 0);
	}
	op = *ip;
	if (op >= 7 && op < t0v_interp) {
		pending = 1;
		p_ctx = c; p_op = op;
		p_dpi = (uint32_t)(dp - STK(c)->dp_stack); p_rpi = (uint32_t)(rp - STK(c)->rp_stack);
		p_ip = ip + 1;
		memcpy(s_pre, c, sizeof *c);
		for (i = 0; i < nreg; i ++) memcpy(reg[i].s_pre, reg[i].p, reg[i].n);
	}
}
/* called by the hooked interpreter right after it saved its registers on exit */
#define T0V_EXIT_(h) h ## _exit
#define T0V_EXIT__(h) T0V_EXIT_(h)
void
T0V_EXIT__(T0V_HOOK)(void *t0ctx)
{
	CTXT *c = (CTXT *)(void *)((unsigned char *)t0ctx - ((unsigned char *)&STK((CTXT *)0)->cpu - (unsigned char *)0));
	if (pending) {
		finish(STK(c)->cpu.dp, STK(c)->cpu.rp, STK(c)->cpu.ip, 1);
	}
}
/* kept for the drivers: nothing left to do after a return of the real *_run() */
static void
t0v_after_run(CTXT *c)
{
	(void)c;
}

/* ------------------------------------------------------------------ helpers */
static unsigned char *
read_file(const char *dir, const char *name, size_t *len)
{
	char path[1024];
	FILE *f;
	unsigned char *b;
	long n;
	snprintf(path, sizeof path, "%s/%s", dir, name);
	f = fopen(path, "rb");
	if (!f) return NULL;
	fseek(f, 0, SEEK_END); n = ftell(f); fseek(f, 0, SEEK_SET);
	b = malloc((size_t)n + 1);
	if (fread(b, 1, (size_t)n, f) != (size_t)n) { fclose(f); free(b); return NULL; }
	fclose(f);
	*len = (size_t)n;
	return b;
}
static int
has_suffix(const char *s, const char *suf)
{
	size_t a = strlen(s), b = strlen(suf);
	return a >= b && strcmp(s + a - b, suf) == 0;
}
typedef void (*file_fn)(const char *name, unsigned char *data, size_t len);
static void
for_files(const char *dir, const char *suffix, file_fn fn)
{
	struct dirent **nl;
	int n = scandir(dir, &nl, NULL, alphasort), i;
	for (i = 0; i < n; i ++) {
		if (has_suffix(nl[i]->d_name, suffix)) {
			size_t len;
			unsigned char *d = read_file(dir, nl[i]->d_name, &len);
			if (d) { fn(nl[i]->d_name, d, len); free(d); }
		}
		free(nl[i]);
	}
	if (n >= 0) free(nl);
}
static const size_t CHUNKS[] = { 100, 1, 7, 4096 };

/* PEM -> DER objects, using the library's (unhooked unless this IS the pem build) decoder */
typedef struct { unsigned char *d; size_t len, cap; char name[128]; } derobj;
static void
der_append(void *cc, const void *src, size_t len)
{
	derobj *o = cc;
	if (o->len + len > o->cap) { o->cap = (o->len + len) * 2 + 256; o->d = realloc(o->d, o->cap); }
	memcpy(o->d + o->len, src, len);
	o->len += len;
}

/* ================================================================== per-program drivers */
#if defined(T0V_KEY_pem)
static unsigned char pem_sink[1 << 16];
static size_t pem_sink_len;
static void pem_dest(void *cc, const void *src, size_t len) { (void)cc; if (pem_sink_len + len <= sizeof pem_sink) { memcpy(pem_sink + pem_sink_len, src, len); pem_sink_len += len; } }
static size_t pem_chunk;
static void
pem_one(const char *name, unsigned char *data, size_t len)
{
	br_pem_decoder_context pc;
	size_t off = 0;
	(void)name;
	t0v_unregister_all();
	t0v_register(pem_sink, sizeof pem_sink); t0v_register(&pem_sink_len, sizeof pem_sink_len);
	pem_sink_len = 0;
	br_pem_decoder_init(&pc); t0v_after_run(&pc);
	while (off < len) {
		size_t n = len - off, k;
		if (n > pem_chunk) n = pem_chunk;
		k = br_pem_decoder_push(&pc, data + off, n); t0v_after_run(&pc);
		off += k;
		switch (br_pem_decoder_event(&pc)) {
		case BR_PEM_BEGIN_OBJ: br_pem_decoder_setdest(&pc, pem_dest, NULL); break;
		case BR_PEM_END_OBJ: break;
		case BR_PEM_ERROR: return;
		default: break;
		}
	}
}
static void
drive(const char *repo)
{
	char dir[1024];
	size_t k;
	for (k = 0; k < sizeof CHUNKS / sizeof CHUNKS[0]; k ++) {
		pem_chunk = CHUNKS[k];
		snprintf(dir, sizeof dir, "%s/samples", repo);
		for_files(dir, ".pem", pem_one);
		for_files(dir, ".txt", pem_one);      /* not PEM: exercises the skipping paths */
	}
}
#endif

#if defined(T0V_KEY_skey) || defined(T0V_KEY_pkey) || defined(T0V_KEY_x509dec) || defined(T0V_KEY_x509min)
/* decode all PEM objects of a file into DER blobs */
static derobj objs[8];
static int nobjs;
static void
pem_to_der(unsigned char *data, size_t len)
{
	br_pem_decoder_context pc;
	size_t off = 0;
	int i;
	for (i = 0; i < nobjs; i ++) free(objs[i].d);
	nobjs = 0;
	br_pem_decoder_init(&pc);
	while (off < len) {
		size_t k = br_pem_decoder_push(&pc, data + off, len - off);
		off += k;
		switch (br_pem_decoder_event(&pc)) {
		case BR_PEM_BEGIN_OBJ:
			if (nobjs == 8) return;
			memset(&objs[nobjs], 0, sizeof objs[nobjs]);
			strncpy(objs[nobjs].name, br_pem_decoder_name(&pc), sizeof objs[nobjs].name - 1);
			br_pem_decoder_setdest(&pc, der_append, &objs[nobjs]);
			break;
		case BR_PEM_END_OBJ: nobjs ++; break;
		case BR_PEM_ERROR: return;
		default: break;
		}
	}
}
#endif

#if defined(T0V_KEY_skey)
static void
skey_der(const unsigned char *der, size_t len, size_t chunk)
{
	br_skey_decoder_context dc;
	size_t off = 0;
	t0v_unregister_all();
	br_skey_decoder_init(&dc); t0v_after_run(&dc);
	while (off < len && br_skey_decoder_last_error(&dc) != 0 && dc.err == 0) {
		size_t n = len - off;
		if (n > chunk) n = chunk;
		br_skey_decoder_push(&dc, der + off, n); t0v_after_run(&dc);
		off += n;
	}
}
static void
skey_one(const char *name, unsigned char *data, size_t len)
{
	size_t k;
	int i;
	(void)name;
	pem_to_der(data, len);
	for (i = 0; i < nobjs; i ++) {
		for (k = 0; k < sizeof CHUNKS / sizeof CHUNKS[0]; k ++) skey_der(objs[i].d, objs[i].len, CHUNKS[k]);
		/* mildly malformed variants: truncated, one byte altered at a few positions */
		if (objs[i].len > 8) {
			size_t pos[] = { 0, 1, 4, 7, objs[i].len / 2 };
			unsigned j;
			skey_der(objs[i].d, objs[i].len - 3, 100);
			for (j = 0; j < sizeof pos / sizeof pos[0]; j ++) {
				unsigned char sv = objs[i].d[pos[j]];
				objs[i].d[pos[j]] ^= 0x21; skey_der(objs[i].d, objs[i].len, 100); objs[i].d[pos[j]] = sv;
			}
		}
	}
}
static void
drive(const char *repo)
{
	char dir[1024];
	snprintf(dir, sizeof dir, "%s/samples", repo);
	for_files(dir, ".pem", skey_one);
}
#endif

#if defined(T0V_KEY_pkey) || defined(T0V_KEY_x509min)
static size_t
put_len(unsigned char *b, size_t len)
{
	if (len < 0x80) { b[0] = (unsigned char)len; return 1; }
	if (len < 0x100) { b[0] = 0x81; b[1] = (unsigned char)len; return 2; }
	b[0] = 0x82; b[1] = (unsigned char)(len >> 8); b[2] = (unsigned char)len; return 3;
}
#endif

#if defined(T0V_KEY_pkey)
/* SubjectPublicKeyInfo rebuilt from the key of a decoded certificate */
static size_t
make_spki(unsigned char *out, const br_x509_pkey *pk)
{
	static const unsigned char alg_rsa[] = { 0x30, 0x0D, 0x06, 0x09, 0x2A, 0x86, 0x48, 0x86, 0xF7, 0x0D, 0x01, 0x01, 0x01, 0x05, 0x00 };
	static const unsigned char oid_ec[] = { 0x06, 0x07, 0x2A, 0x86, 0x48, 0xCE, 0x3D, 0x02, 0x01 };
	static const unsigned char oid_p256[] = { 0x06, 0x08, 0x2A, 0x86, 0x48, 0xCE, 0x3D, 0x03, 0x01, 0x07 };
	static const unsigned char oid_p384[] = { 0x06, 0x05, 0x2B, 0x81, 0x04, 0x00, 0x22 };
	static const unsigned char oid_p521[] = { 0x06, 0x05, 0x2B, 0x81, 0x04, 0x00, 0x23 };
	unsigned char body[4096], l[3];
	size_t bl = 0, n, k = 0;
	if (pk->key_type == BR_KEYTYPE_RSA) {
		unsigned char inner[2048];
		size_t il = 0;
		int lead = (pk->key.rsa.n[0] & 0x80) != 0;
		inner[il ++] = 0x02; il += put_len(inner + il, pk->key.rsa.nlen + lead); if (lead) inner[il ++] = 0;
		memcpy(inner + il, pk->key.rsa.n, pk->key.rsa.nlen); il += pk->key.rsa.nlen;
		inner[il ++] = 0x02; il += put_len(inner + il, pk->key.rsa.elen);
		memcpy(inner + il, pk->key.rsa.e, pk->key.rsa.elen); il += pk->key.rsa.elen;
		memcpy(body, alg_rsa, sizeof alg_rsa); bl = sizeof alg_rsa;
		body[bl ++] = 0x03; bl += put_len(body + bl, 1 + 1 + put_len(l, il) + il);
		body[bl ++] = 0x00;
		body[bl ++] = 0x30; bl += put_len(body + bl, il);
		memcpy(body + bl, inner, il); bl += il;
	} else {
		const unsigned char *co = pk->key.ec.curve == BR_EC_secp256r1 ? oid_p256 : pk->key.ec.curve == BR_EC_secp384r1 ? oid_p384 : oid_p521;
		size_t cl = (size_t)co[1] + 2;
		body[bl ++] = 0x30; body[bl ++] = (unsigned char)(sizeof oid_ec + cl);
		memcpy(body + bl, oid_ec, sizeof oid_ec); bl += sizeof oid_ec;
		memcpy(body + bl, co, cl); bl += cl;
		body[bl ++] = 0x03; bl += put_len(body + bl, 1 + pk->key.ec.qlen);
		body[bl ++] = 0x00;
		memcpy(body + bl, pk->key.ec.q, pk->key.ec.qlen); bl += pk->key.ec.qlen;
	}
	out[k ++] = 0x30; n = put_len(out + k, bl); k += n;
	memcpy(out + k, body, bl); k += bl;
	return k;
}
static void
pkey_der(const unsigned char *der, size_t len, size_t chunk)
{
	br_pkey_decoder_context dc;
	size_t off = 0;
	t0v_unregister_all();
	br_pkey_decoder_init(&dc); t0v_after_run(&dc);
	while (off < len && dc.err == 0) {
		size_t n = len - off;
		if (n > chunk) n = chunk;
		br_pkey_decoder_push(&dc, der + off, n); t0v_after_run(&dc);
		off += n;
	}
}
static void
pkey_one(const char *name, unsigned char *data, size_t len)
{
	br_x509_decoder_context xc;
	const br_x509_pkey *pk;
	unsigned char spki[4200];
	size_t sl, k;
	(void)name;
	br_x509_decoder_init(&xc, 0, 0, 0, 0);
	br_x509_decoder_push(&xc, data, len);
	pk = br_x509_decoder_get_pkey(&xc);
	if (pk == NULL) return;
	sl = make_spki(spki, pk);
	for (k = 0; k < sizeof CHUNKS / sizeof CHUNKS[0]; k ++) pkey_der(spki, sl, CHUNKS[k]);
	{
		size_t pos[] = { 0, 1, 4, 7, 20, sl / 2 };
		unsigned j;
		pkey_der(spki, sl - 3, 100);
		for (j = 0; j < sizeof pos / sizeof pos[0]; j ++) {
			unsigned char sv = spki[pos[j]];
			spki[pos[j]] ^= 0x21; pkey_der(spki, sl, 100); spki[pos[j]] = sv;
		}
	}
}
static void
drive(const char *repo)
{
	char dir[1024];
	snprintf(dir, sizeof dir, "%s/test/x509", repo);
	for_files(dir, ".crt", pkey_one);
}
#endif

#if defined(T0V_KEY_x509dec)
static unsigned char dn_sink[1 << 14];
static size_t dn_len;
static void dn_append(void *cc, const void *b, size_t len) { (void)cc; if (dn_len + len <= sizeof dn_sink) { memcpy(dn_sink + dn_len, b, len); dn_len += len; } }
static void
xdec(const unsigned char *der, size_t len, size_t chunk, int cb)
{
	br_x509_decoder_context dc;
	size_t off = 0;
	t0v_unregister_all();
	t0v_register(dn_sink, sizeof dn_sink); t0v_register(&dn_len, sizeof dn_len);
	dn_len = 0;
	br_x509_decoder_init(&dc, cb ? dn_append : 0, 0, cb ? dn_append : 0, 0); t0v_after_run(&dc);
	while (off < len && dc.err == 0) {
		size_t n = len - off;
		if (n > chunk) n = chunk;
		br_x509_decoder_push(&dc, der + off, n); t0v_after_run(&dc);
		off += n;
	}
}
static void
xdec_one(const char *name, unsigned char *data, size_t len)
{
	size_t k;
	(void)name;
	for (k = 0; k < sizeof CHUNKS / sizeof CHUNKS[0]; k ++) xdec(data, len, CHUNKS[k], (int)(k & 1));
}
static void
xdec_pem(const char *name, unsigned char *data, size_t len)
{
	int i;
	(void)name;
	pem_to_der(data, len);
	for (i = 0; i < nobjs; i ++) xdec(objs[i].d, objs[i].len, 100, 1);
}
static void
drive(const char *repo)
{
	char dir[1024];
	snprintf(dir, sizeof dir, "%s/test/x509", repo);
	for_files(dir, ".crt", xdec_one);
	snprintf(dir, sizeof dir, "%s/samples", repo);
	for_files(dir, ".pem", xdec_pem);
}
#endif

#if defined(T0V_KEY_x509min)
/* trust anchors: every certificate of test/x509 whose name starts with "root", as CA;
   every "ee*" certificate as non-CA (direct trust) */
#define MAXTA 24
static br_x509_trust_anchor tas[MAXTA];
static int ntas;
static unsigned char ta_dn[1 << 14];
static size_t ta_dn_len;
static void ta_dn_append(void *cc, const void *b, size_t len) { (void)cc; memcpy(ta_dn + ta_dn_len, b, len); ta_dn_len += len; }
static unsigned char *
dupmem(const void *p, size_t n) { unsigned char *q = malloc(n ? n : 1); memcpy(q, p, n); return q; }
static void
ta_one(const char *name, unsigned char *data, size_t len)
{
	br_x509_decoder_context xc;
	const br_x509_pkey *pk;
	br_x509_trust_anchor *ta;
	int is_root = strncmp(name, "root", 4) == 0, is_ee = strcmp(name, "ee.crt") == 0 || strcmp(name, "ee-p256.crt") == 0;
	if (!(is_root || is_ee) || ntas == MAXTA) return;
	ta_dn_len = 0;
	br_x509_decoder_init(&xc, ta_dn_append, 0, 0, 0);
	br_x509_decoder_push(&xc, data, len);
	pk = br_x509_decoder_get_pkey(&xc);
	if (!pk) return;
	ta = &tas[ntas ++];
	ta->dn.data = dupmem(ta_dn, ta_dn_len); ta->dn.len = ta_dn_len;
	ta->flags = is_root ? BR_X509_TA_CA : 0;
	ta->pkey = *pk;
	if (pk->key_type == BR_KEYTYPE_RSA) {
		ta->pkey.key.rsa.n = dupmem(pk->key.rsa.n, pk->key.rsa.nlen);
		ta->pkey.key.rsa.e = dupmem(pk->key.rsa.e, pk->key.rsa.elen);
	} else {
		ta->pkey.key.ec.q = dupmem(pk->key.ec.q, pk->key.ec.qlen);
	}
}
static const char *test_dir;
static char ne_buf[3][64];
static br_name_element nes[3];
static const unsigned char OID_CN[] = { 0x03, 0x55, 0x04, 0x03 };
static const unsigned char OID_SAN_DNS[] = { 0x00, 0x00, 0x02 };
static const unsigned char OID_SAN_RFC822[] = { 0x00, 0x00, 0x01 };
static void
chain(const char **names, int n, const char *sname, size_t chunk, int with_tas, uint32_t days)
{
	br_x509_minimal_context xm;
	int i;
	t0v_unregister_all();
	t0v_register(ne_buf, sizeof ne_buf); t0v_register(nes, sizeof nes);
	br_x509_minimal_init(&xm, &br_sha256_vtable, tas, with_tas ? (size_t)ntas : 0);
	br_x509_minimal_set_rsa(&xm, &br_rsa_i31_pkcs1_vrfy);
	br_x509_minimal_set_ecdsa(&xm, &br_ec_prime_i31, &br_ecdsa_i31_vrfy_asn1);
	br_x509_minimal_set_hash(&xm, br_sha1_ID, &br_sha1_vtable);
	br_x509_minimal_set_hash(&xm, br_sha224_ID, &br_sha224_vtable);
	br_x509_minimal_set_hash(&xm, br_sha256_ID, &br_sha256_vtable);
	br_x509_minimal_set_hash(&xm, br_sha384_ID, &br_sha384_vtable);
	br_x509_minimal_set_hash(&xm, br_sha512_ID, &br_sha512_vtable);
	br_x509_minimal_set_time(&xm, days, 0);
	memset(nes, 0, sizeof nes);
	nes[0].oid = OID_CN; nes[0].buf = ne_buf[0]; nes[0].len = sizeof ne_buf[0];
	nes[1].oid = OID_SAN_DNS; nes[1].buf = ne_buf[1]; nes[1].len = 8;
	nes[2].oid = OID_SAN_RFC822; nes[2].buf = ne_buf[2]; nes[2].len = sizeof ne_buf[2];
	br_x509_minimal_set_name_elements(&xm, nes, 3);
	xm.vtable->start_chain(&xm.vtable, sname);
	for (i = 0; i < n; i ++) {
		size_t len, off = 0;
		unsigned char *d = read_file(test_dir, names[i], &len);
		if (!d) continue;
		xm.vtable->start_cert(&xm.vtable, (uint32_t)len);
		while (off < len) {
			size_t k = len - off;
			if (k > chunk) k = chunk;
			xm.vtable->append(&xm.vtable, d + off, k); t0v_after_run(&xm);
			off += k;
		}
		xm.vtable->end_cert(&xm.vtable);
		free(d);
	}
	(void)xm.vtable->end_chain(&xm.vtable);
}
static void
ee_one(const char *name, unsigned char *data, size_t len)
{
	const char *c1[4];
	(void)data; (void)len;
	if (strncmp(name, "ee", 2) != 0 && strcmp(name, "names.crt") != 0 && strcmp(name, "junk.crt") != 0) return;
	c1[0] = name; c1[1] = "ica2.crt"; c1[2] = "ica1.crt"; c1[3] = "root.crt";
	chain(c1, 3, "www.example.com", 100, 1, 735000);
	chain(c1, 4, "foo.example.com", 7, 1, 735000);
	chain(c1, 1, NULL, 4096, 1, 735000);
	chain(c1, 3, "www.example.com", 100, 0, 735000);
	chain(c1, 3, "www.example.com", 100, 1, 700000);
	chain(c1, 3, "www.example.com", 100, 1, 900000);
}
static void
drive(const char *repo)
{
	static char dir[1024];
	static const char *pc[][4] = {
		{ "ee-p256.crt", "ica2-p256.crt", "ica1-p256.crt", "root-p256.crt" },
		{ "ee-p384.crt", "ica2-p384.crt", "ica1-p384.crt", "root-p384.crt" },
		{ "ee-p521.crt", "ica2-p521.crt", "ica1-p521.crt", "root-p521.crt" },
		{ "ee.crt", "ica2-4096.crt", "ica1-4096.crt", "root.crt" },
		{ "ee.crt", "ica2-1016.crt", "ica1-1016.crt", "root.crt" },
		{ "ee.crt", "ica2-1017.crt", "ica1-1017.crt", "root.crt" },
		{ "ee.crt", "ica2-notCA.crt", "ica1.crt", "root.crt" },
		{ "ee.crt", "ica1.crt", "ica2.crt", "root.crt" },
	};
	unsigned i;
	snprintf(dir, sizeof dir, "%s/test/x509", repo);
	test_dir = dir;
	for_files(dir, ".crt", ta_one);
	for_files(dir, ".crt", ee_one);
	for (i = 0; i < sizeof pc / sizeof pc[0]; i ++) {
		chain(pc[i], 3, "www.example.com", 100, 1, 735000);
		chain(pc[i], 4, "www.example.com", 33, 1, 735000);
	}
}
#endif

#if defined(T0V_KEY_hsc) || defined(T0V_KEY_hss)
#include "t0val_hs.h"
#endif

int
main(int argc, char **argv)
{
	unsigned op;
	if (argc < 2) { fprintf(stderr, "usage: t0val <repo>\n"); return 2; }
	drive(argv[1]);
	for (op = 7; op < t0v_interp; op ++) {
		printf("NATIVE %u %lu %lu %lu\n", op, st_count[op], st_agree[op], st_bad[op]);
	}
	return 0;
}
