/*
 * t0n_vm.h -- index-based view of the T0 virtual machine registers for the
 * native words extracted by t0tool.py (encoder E2).
 *
 * The data and return stacks are the REAL dp_stack[] / rp_stack[] fields of
 * the context; the stack pointers are the index registers t0n_dpi / t0n_rpi
 * (so that a model checker sees array indexing, not pointer arithmetic).
 *
 * Before inclusion:   T0N_CTXT   context type
 *                     T0N_STK(c) expression: struct that holds dp_stack/rp_stack
 * Modes (define before inclusion):
 *   (none)      plain semantics, used for translation validation (native run)
 *   T0N_TRACK   ghost registers record the lowest/highest stack index touched
 *   T0N_GUARD   every stack access is CHECKED to satisfy 0 <= index < N (the harness
 *               assumes the entry depth leaves room for the native's need/peak, which
 *               E4 proves for every reachable call site); C05 layer-2 harness
 * Hooks (may be pre-defined): T0_ADDR(base, off, width)
 */
#ifndef T0N_VM_H
#define T0N_VM_H

static uint32_t t0n_dpi, t0n_rpi;      /* stack index registers */
static int t0n_co;                     /* set when the native executed T0_CO() */

#define T0N_NDP  (sizeof(T0N_STK((T0N_CTXT *)0)->dp_stack) / sizeof(uint32_t))
#define T0N_NRP  (sizeof(T0N_STK((T0N_CTXT *)0)->rp_stack) / sizeof(uint32_t))

#ifdef T0N_TRACK
static uint32_t t0n_dlo, t0n_dhi, t0n_rlo, t0n_rhi;
static inline uint32_t t0n_dat(uint32_t i) { if (i < t0n_dlo) t0n_dlo = i; if (i + 1 > t0n_dhi) t0n_dhi = i + 1; return i; }
static inline uint32_t t0n_rat(uint32_t i) { if (i < t0n_rlo) t0n_rlo = i; if (i + 1 > t0n_rhi) t0n_rhi = i + 1; return i; }
#elif defined(T0N_GUARD)
static inline uint32_t t0n_dat(uint32_t i) { T0N_CHECK(i < T0N_NDP, "data stack slot index in range"); return i; }
static inline uint32_t t0n_rat(uint32_t i) { T0N_CHECK(i < T0N_NRP, "return stack slot index in range"); return i; }
#else
static inline uint32_t t0n_dat(uint32_t i) { return i; }
static inline uint32_t t0n_rat(uint32_t i) { return i; }
#endif

#define T0N_DS   (T0N_STK(t0n_ctx)->dp_stack)
#define T0N_RS   (T0N_STK(t0n_ctx)->rp_stack)

#ifndef T0_ADDR
#define T0_ADDR(base, off, width)   ((unsigned char *)(base) + (off))
#endif

#undef T0_LOCAL
#undef T0_POP
#undef T0_POPi
#undef T0_PEEK
#undef T0_PEEKi
#undef T0_PUSH
#undef T0_PUSHi
#undef T0_RPOP
#undef T0_RPOPi
#undef T0_RPUSH
#undef T0_RPUSHi
#undef T0_ROLL
#undef T0_SWAP
#undef T0_ROT
#undef T0_NROT
#undef T0_PICK
#undef T0_CO
#undef T0_RET

#define T0_LOCAL(x)    (T0N_RS[t0n_rat(t0n_rpi - 2 - (uint32_t)(x))])
#define T0_POP()       (T0N_DS[t0n_dat(-- t0n_dpi)])
#define T0_POPi()      ((int32_t)T0N_DS[t0n_dat(-- t0n_dpi)])
#define T0_PEEK(x)     (T0N_DS[t0n_dat(t0n_dpi - 1 - (uint32_t)(x))])
#define T0_PEEKi(x)    ((int32_t)T0N_DS[t0n_dat(t0n_dpi - 1 - (uint32_t)(x))])
#define T0_PUSH(v)     do { uint32_t t0n_v = (uint32_t)(v); T0N_DS[t0n_dat(t0n_dpi)] = t0n_v; t0n_dpi ++; } while (0)
#define T0_PUSHi(v)    do { int32_t t0n_v = (int32_t)(v); T0N_DS[t0n_dat(t0n_dpi)] = (uint32_t)t0n_v; t0n_dpi ++; } while (0)
#define T0_RPOP()      (T0N_RS[t0n_rat(-- t0n_rpi)])
#define T0_RPOPi()     ((int32_t)T0N_RS[t0n_rat(-- t0n_rpi)])
#define T0_RPUSH(v)    do { uint32_t t0n_v = (uint32_t)(v); T0N_RS[t0n_rat(t0n_rpi)] = t0n_v; t0n_rpi ++; } while (0)
#define T0_RPUSHi(v)   do { int32_t t0n_v = (int32_t)(v); T0N_RS[t0n_rat(t0n_rpi)] = (uint32_t)t0n_v; t0n_rpi ++; } while (0)
#define T0_ROLL(x)     do { \
	uint32_t t0n_len = (uint32_t)(x); \
	uint32_t t0n_tmp = T0N_DS[t0n_dat(t0n_dpi - 1 - t0n_len)]; \
	uint32_t t0n_k; \
	for (t0n_k = t0n_len; t0n_k > 0; t0n_k --) { \
		T0N_DS[t0n_dat(t0n_dpi - 1 - t0n_k)] = T0N_DS[t0n_dat(t0n_dpi - t0n_k)]; \
	} \
	T0N_DS[t0n_dat(t0n_dpi - 1)] = t0n_tmp; \
} while (0)
#define T0_SWAP()      do { \
	uint32_t t0n_tmp = T0N_DS[t0n_dat(t0n_dpi - 2)]; \
	T0N_DS[t0n_dat(t0n_dpi - 2)] = T0N_DS[t0n_dat(t0n_dpi - 1)]; \
	T0N_DS[t0n_dat(t0n_dpi - 1)] = t0n_tmp; \
} while (0)
#define T0_ROT()       do { \
	uint32_t t0n_tmp = T0N_DS[t0n_dat(t0n_dpi - 3)]; \
	T0N_DS[t0n_dat(t0n_dpi - 3)] = T0N_DS[t0n_dat(t0n_dpi - 2)]; \
	T0N_DS[t0n_dat(t0n_dpi - 2)] = T0N_DS[t0n_dat(t0n_dpi - 1)]; \
	T0N_DS[t0n_dat(t0n_dpi - 1)] = t0n_tmp; \
} while (0)
#define T0_NROT()      do { \
	uint32_t t0n_tmp = T0N_DS[t0n_dat(t0n_dpi - 1)]; \
	T0N_DS[t0n_dat(t0n_dpi - 1)] = T0N_DS[t0n_dat(t0n_dpi - 2)]; \
	T0N_DS[t0n_dat(t0n_dpi - 2)] = T0N_DS[t0n_dat(t0n_dpi - 3)]; \
	T0N_DS[t0n_dat(t0n_dpi - 3)] = t0n_tmp; \
} while (0)
#define T0_PICK(x)     do { \
	uint32_t t0n_depth = (uint32_t)(x); \
	T0_PUSH(T0_PEEK(t0n_depth)); \
} while (0)
#define T0_CO()        do { t0n_co = 1; return; } while (0)
#define T0_RET()       return

#endif
