#!/usr/bin/env python3
"""
Driver for the solver-based checks of bearssl-esp8266 (see DESIGN.md).

  verif.py check <PID> [--tier quick|thorough] [--only substr] [--keep]
  verif.py replay <replay.json>
  verif.py list

Every query is: goto-cc of the harness + the named real units from /repo's
working tree -> cbmc (bounded, unwinding assertions) -> verdict.  A witness
twin (-DWITNESS) must reach every WITNESS_POINT.  A failed property is turned
into a replay file (values of all nondet inputs, in call order), rebuilt
natively against the real sources with ASan/UBSan and run; only what
reproduces is printed as VIOLATION.
"""
import sys, os, threading, json, re, subprocess, time, shutil, resource, importlib, hashlib, glob
from concurrent.futures import ThreadPoolExecutor

ROOT = os.path.dirname(os.path.abspath(__file__))
REPO = os.environ.get("VERIF_REPO", "/repo")
BUILD = os.environ.get("VERIF_BUILD") or os.path.join(ROOT, "build")
HARN = os.path.join(ROOT, "harness")
GUARD = "BEARSSL_ESP8266_VERIF"
NCPU = os.cpu_count() or 4

ESP_DEFS = ["-DBR_64=0", "-DBR_INT128=0", "-DBR_UMUL128=0", "-DBR_AES_X86NI=0",
            "-DBR_SSE2=0", "-DBR_RDRAND=0", "-DBR_LE_UNALIGNED=0",
            "-DBR_BE_UNALIGNED=0", "-DBR_LOMUL=1", "-DBR_POWER8=0"]

CBMC_CHECKS = ["--pointer-overflow-check", "--undefined-shift-check",
               "--signed-overflow-check", "--no-malloc-may-fail"]


def repo_cflags_defs():
    """-D options of CFLAGS in conf/Unix.mk, read at run time."""
    out = []
    try:
        for line in open(os.path.join(REPO, "conf", "Unix.mk")):
            m = re.match(r"\s*CFLAGS\s*=\s*(.*)", line)
            if m:
                out = [t for t in m.group(1).split() if t.startswith("-D")]
    except OSError:
        pass
    return out


class Q:
    """One solver query."""

    def __init__(self, name, harness, units=(), defs=(), unwind=None, unwindset=(),
                 flags=(), backend=None, timeout=240, tier="quick", config="host",
                 witness=True, desc="", objbits=None, mem_gb=24, native_units=None,
                 native_ok=True, allow_nobody=(), checks=True, slice=True,
                 fsarray=None, expect_fail=()):
        self.name = name
        self.harness = harness
        self.units = list(units)
        self.defs = list(defs)
        self.unwind = unwind
        self.unwindset = list(unwindset)
        self.flags = list(flags)
        self.backend = backend
        self.timeout = timeout
        self.tier = tier
        self.config = config
        self.witness = witness
        self.desc = desc
        self.objbits = objbits
        self.mem_gb = mem_gb
        self.native_units = native_units
        self.native_ok = native_ok
        self.allow_nobody = list(allow_nobody)
        self.checks = checks
        self.slice = slice
        self.fsarray = fsarray
        self.expect_fail = list(expect_fail)


def limit_mem(gb):
    def f():
        lim = int(gb * (1 << 30))
        resource.setrlimit(resource.RLIMIT_AS, (lim, lim))
        os.setsid()
    return f


def run(cmd, timeout, mem_gb=24, cwd=None, env=None):
    t0 = time.time()
    try:
        p = subprocess.Popen(cmd, stdout=subprocess.PIPE, stderr=subprocess.PIPE,
                             cwd=cwd, env=env, preexec_fn=limit_mem(mem_gb))
        try:
            out, err = p.communicate(timeout=timeout)
            rc = p.returncode
        except subprocess.TimeoutExpired:
            try:
                os.killpg(p.pid, 9)
            except Exception:
                p.kill()
            out, err = p.communicate()
            rc = -999
    except OSError as e:
        return -998, "", str(e), time.time() - t0
    return rc, out.decode("utf-8", "replace"), err.decode("utf-8", "replace"), time.time() - t0


def config_defs(q):
    d = repo_cflags_defs() + ["-D" + GUARD]
    if q.config == "esp":
        d += ESP_DEFS
    return d


def goto_build(q, wd, extra_defs, out):
    srcs = [os.path.join(HARN, q.harness), os.path.join(HARN, "strmodel.c")]
    if any(d.startswith("-DVLOG") for d in extra_defs):
        srcs.append(os.path.join(HARN, "vlog.c"))
    srcs += [os.path.join(REPO, u) for u in q.units]
    cmd = ["goto-cc", "-I" + os.path.join(REPO, "inc"), "-I" + os.path.join(REPO, "src"),
           "-I" + HARN, "-I" + REPO, "-DVERIF_CBMC=1"] + config_defs(q) + q.defs + extra_defs + ["-o", out] + srcs
    rc, o, e, dt = run(cmd, 300, cwd=wd)
    return rc, (o + e), cmd


def cbmc_cmd(q, gb, witness=False, trace=False):
    cmd = ["cbmc", gb, "--json-ui", "--verbosity", "8", "--drop-unused-functions"]
    if q.unwind is not None:
        cmd += ["--unwind", str(q.unwind)]
    if q.unwindset:
        cmd += ["--unwindset", ",".join(q.unwindset)]
    if q.objbits:
        cmd += ["--object-bits", str(q.objbits)]
    if q.fsarray:
        cmd += ["--max-field-sensitivity-array-size", str(q.fsarray)]
    if witness:
        cmd += ["--no-standard-checks", "--no-malloc-may-fail"]
    else:
        cmd += ["--unwinding-assertions"]
        if q.checks:
            cmd += CBMC_CHECKS
        else:
            cmd += ["--no-malloc-may-fail"]
    if q.slice and not trace:
        cmd += ["--slice-formula"]
    if trace:
        cmd += ["--trace", "--stop-on-fail"]
    be = q.backend
    if be == "cadical":
        cmd += ["--sat-solver", "cadical"]
    elif be == "kissat":
        cmd += ["--external-sat-solver", "kissat"]
    elif be == "z3":
        cmd += ["--z3"]
    elif be == "cvc5":
        cmd += ["--cvc5"]
    cmd += [f for f in q.flags]
    return cmd


def parse_cbmc(out):
    """returns dict(status, results[], stats{}, raw_err)"""
    res = {"status": None, "results": [], "stats": {}, "trace": None, "error": None}
    try:
        d = json.loads(out)
    except Exception as e:
        # truncated JSON (timeout / OOM)
        res["error"] = "unparsable cbmc output (%s): %s" % (e, out[-300:])
        return res
    for m in d:
        if "messageText" in m:
            t = m["messageText"]
            mm = re.match(r"Runtime Symex: ([0-9.e+-]+)s", t)
            if mm:
                res["stats"]["symex_s"] = round(float(mm.group(1)), 3)
            mm = re.match(r"Runtime Solver: ([0-9.e+-]+)s", t)
            if mm:
                res["stats"]["solver_s"] = round(res["stats"].get("solver_s", 0) + float(mm.group(1)), 3)
            mm = re.match(r"(\d+) variables, (\d+) clauses", t)
            if mm:
                res["stats"]["vars"] = int(mm.group(1))
                res["stats"]["clauses"] = int(mm.group(2))
            mm = re.match(r"Generated (\d+) VCC\(s\), (\d+) remaining", t)
            if mm:
                res["stats"]["vccs"] = int(mm.group(1))
                res["stats"]["vccs_remaining"] = int(mm.group(2))
            mm = re.match(r"size of program expression: (\d+) steps", t)
            if mm:
                res["stats"]["steps"] = int(mm.group(1))
            if m.get("messageType") == "ERROR":
                res["error"] = (res["error"] or "") + t[:500]
        elif "result" in m:
            res["results"] = m["result"]
        elif "trace" in m and "property" in m:
            res["results"].append(m)
        elif "cProverStatus" in m:
            res["status"] = m["cProverStatus"]
    return res


def vlog_from_trace(trace):
    """nondet values in call order = actual parameters of the vin() calls"""
    vals = []
    pending = False
    for s in trace:
        st = s.get("stepType")
        if st == "function-call" and (s.get("function") or {}).get("displayName") == "vin":
            pending = True
            continue
        if pending and st == "assignment" and s.get("assignmentType") == "actual-parameter":
            v = s.get("value", {})
            b = v.get("binary")
            if b is not None and re.match(r"^[01]+$", b):
                val = int(b, 2)
            else:
                val = int(re.sub(r"[a-zA-Z]+$", "", str(v.get("data", "0"))))
            vals.append(val & 0xFFFFFFFFFFFFFFFF)
            pending = False
    return vals


_native_lock = None
_native_archive = {}


def native_archive(config_key, defs):
    """ASan/UBSan-instrumented static library of ALL src/**/*.c of the current
    REPO tree (object cache keyed by content hash), used to resolve whatever a
    native replay needs beyond its listed units."""
    import threading
    global _native_lock
    if _native_lock is None:
        _native_lock = threading.Lock()
    with _native_lock:
        if config_key in _native_archive:
            return _native_archive[config_key]
        cdir = os.path.join(BUILD, "nativelib")
        os.makedirs(cdir, exist_ok=True)
        srcs = sorted(glob.glob(os.path.join(REPO, "src", "**", "*.c"), recursive=True))
        flags = ["-g", "-O1", "-w", "-fsanitize=address,undefined", "-fno-sanitize-recover=undefined",
                 "-I" + os.path.join(REPO, "inc"), "-I" + os.path.join(REPO, "src")] + defs
        hdr_h = hashlib.sha1()
        for h in sorted(glob.glob(os.path.join(REPO, "inc", "*.h")) + glob.glob(os.path.join(REPO, "src", "*.h"))):
            hdr_h.update(open(h, "rb").read())
        hdr_h.update(" ".join(flags[5:]).encode())
        hk = hdr_h.hexdigest()
        jobs = []
        objs = []
        for sfile in srcs:
            k = hashlib.sha1(open(sfile, "rb").read() + hk.encode()).hexdigest()[:20]
            o = os.path.join(cdir, k + ".o")
            objs.append(o)
            if not os.path.exists(o):
                jobs.append((sfile, o))

        def cc1(j):
            rc, o_, e_, dt = run(["gcc"] + flags + ["-c", j[0], "-o", j[1] + ".tmp"], 300, mem_gb=1 << 20)
            if rc == 0:
                os.replace(j[1] + ".tmp", j[1])
            return rc
        if jobs:
            with ThreadPoolExecutor(max_workers=max(2, NCPU - 2)) as ex:
                list(ex.map(cc1, jobs))
        objs = [o for o in objs if os.path.exists(o)]
        ar = os.path.join(cdir, "libnative_%s.a" % hashlib.sha1((config_key + hk + "".join(objs)).encode()).hexdigest()[:12])
        if not os.path.exists(ar):
            run(["ar", "rcs", ar + ".tmp"] + objs, 300, mem_gb=1 << 20)
            os.replace(ar + ".tmp", ar)
        _native_archive[config_key] = ar
        return ar


def native_build_and_run(q, wd, values, tag="replay"):
    """Build the harness natively against the real sources and run it on the
    values.  Returns (reproduced: bool|None, text)."""
    inp = os.path.join(wd, tag + ".in")
    with open(inp, "w") as f:
        f.write("\n".join(str(v) for v in values) + "\n")
    exe = os.path.join(wd, tag + ".exe")
    units = q.native_units if q.native_units is not None else q.units
    srcs = [os.path.join(HARN, q.harness), os.path.join(HARN, "native_rt.c")] + [os.path.join(REPO, u) for u in units]
    cmd = ["gcc", "-g", "-O0", "-w", "-fsanitize=address,undefined", "-fno-sanitize-recover=undefined",
           "-I" + os.path.join(REPO, "inc"), "-I" + os.path.join(REPO, "src"), "-I" + HARN, "-I" + REPO,
           "-DNATIVE_REPLAY=1"] + config_defs(q) + q.defs + ["-o", exe] + srcs
    try:
        # harness-defined link-seam stubs take precedence over archive members
        cmd.append("-Wl,--allow-multiple-definition")
        cmd.append(native_archive(q.config, config_defs(q)))
    except Exception as ex_:
        pass
    rc, o, e, dt = run(cmd, 300, cwd=wd, mem_gb=1 << 20)
    if rc != 0:
        return None, "native build failed: " + (o + e)[-2000:], -1
    env = dict(os.environ)
    env["VERIF_REPLAY"] = inp
    env["ASAN_OPTIONS"] = "detect_leaks=0:abort_on_error=0"
    rc, o, e, dt = run([exe], 120, cwd=wd, env=env, mem_gb=1 << 20)
    text = (o + e)[-3000:]
    if rc == 0:
        # memory the harness leaves unconstrained is arbitrary for the solver and zero in the first native run:
        # retry with other fill bytes; only a failing CHECK (not a sanitizer report) counts on these retries
        for fill in ("255", "165", "1"):
            env["VERIF_FILL"] = fill
            rc2, o2, e2, dt2 = run([exe], 120, cwd=wd, env=env, mem_gb=1 << 20)
            if rc2 == 1 and "REPLAY-FAIL" in o2:
                return True, "native run (unconstrained harness memory filled with byte %s) exit 1\n%s" % (fill, (o2 + e2)[-3000:]), rc2
        return False, "native run completed without failure\n" + text, rc
    if rc == 3:
        return False, "native run: an assumption does not hold on these values\n" + text, rc
    if rc in (4, 5):
        return None, "native replay ran out of values\n" + text, rc
    return True, "native run exit %d\n%s" % (rc, text), rc


def undefined_check(parsed):
    return [r for r in parsed["results"] if ".no-body." in r.get("property", "")]


_HEAVY = threading.Semaphore(3)   # queries marked heavy (>10 GB of solver memory each) run at most three at a time


def run_query(pid, q, keep=False):
    if getattr(q, "heavy", False):
        with _HEAVY:
            return _run_query(pid, q, keep)
    return _run_query(pid, q, keep)


def _run_query(pid, q, keep=False):
    """Full pipeline for one query. Returns a result dict."""
    wd = os.path.join(BUILD, pid, re.sub(r"[^A-Za-z0-9_.-]", "_", q.name))
    shutil.rmtree(wd, ignore_errors=True)
    os.makedirs(wd)
    r = {"query": q.name, "harness": "harness/" + q.harness, "units": q.units, "defs": q.defs,
         "config": q.config, "bounds": {"unwind": q.unwind, "unwindset": q.unwindset},
         "backend": q.backend or "minisat(default)", "desc": q.desc, "verdict": None,
         "failed": [], "witness": None}
    t0 = time.time()
    gb = os.path.join(wd, "q.gb")
    rc, txt, cmd = goto_build(q, wd, [], gb)
    if rc != 0:
        r["verdict"] = "INCONCLUSIVE"
        r["reason"] = "goto-cc failed: " + txt[-1500:]
        return r
    cmd = cbmc_cmd(q, gb)
    r["cbmc_args"] = " ".join(cmd[2:])
    rc, out, err, dt = run(cmd, q.timeout, q.mem_gb, cwd=wd)
    r["wall_s"] = round(dt, 1)
    if rc == -999:
        r["verdict"] = "INCONCLUSIVE"
        r["kind"] = "resource"
        r["reason"] = "timeout after %ds" % q.timeout
        if not keep:
            shutil.rmtree(wd, ignore_errors=True)
        return r
    p = parse_cbmc(out)
    r["stats"] = p["stats"]
    if p["status"] is None or p["error"] and p["status"] not in ("success", "failure"):
        r["verdict"] = "INCONCLUSIVE"
        oom = ("bad_alloc" in err or "Out of memory" in err or "out of memory" in (out[-2000:] + err) or rc in (-6, -9, 134, 137))
        r["kind"] = "resource" if oom else "encoding"
        r["reason"] = "cbmc rc=%d: %s %s" % (rc, p["error"], err[-500:])
        if not keep:
            shutil.rmtree(wd, ignore_errors=True)
        return r
    results = p["results"]
    r["properties_checked"] = len(results)
    funcs = sorted(set(x.get("sourceLocation", {}).get("function", "") for x in results) - {""})
    r["functions_with_obligations"] = funcs
    failed = [x for x in results if x.get("status") == "FAILURE"]
    undecided = [x for x in results if x.get("status") not in ("SUCCESS", "FAILURE")]
    r["undecided_properties"] = len(undecided)
    r["failed"] = [{"property": x["property"], "description": x.get("description", ""),
                    "status": x.get("status"),
                    "where": "%s:%s" % (x.get("sourceLocation", {}).get("file", "?"), x.get("sourceLocation", {}).get("line", "?"))}
                   for x in failed]
    # expected-fail bookkeeping is only for negative self-tests
    if failed:
        r["verdict"] = "FAIL"
    elif undecided:
        r["verdict"] = "INCONCLUSIVE"
        r["kind"] = "resource"
        r["reason"] = "%d properties left undecided by cbmc (%s)" % (len(undecided), undecided[0].get("status"))
    else:
        r["verdict"] = "PASS"
    # witness twin
    if q.witness and r["verdict"] == "PASS":
        gbw = os.path.join(wd, "w.gb")
        rc, txt, _ = goto_build(q, wd, ["-DWITNESS=1"], gbw)
        if rc != 0:
            r["verdict"] = "INCONCLUSIVE"
            r["reason"] = "witness build failed: " + txt[-800:]
            return r
        rc, out, err, dtw = run(cbmc_cmd(q, gbw, witness=True), q.timeout, q.mem_gb, cwd=wd)
        r["witness_wall_s"] = round(dtw, 1)
        if rc == -999:
            r["verdict"] = "INCONCLUSIVE"
            r["kind"] = "resource"
            r["reason"] = "witness twin timeout"
        else:
            pw = parse_cbmc(out)
            wp = [x for x in pw["results"] if x.get("description", "").startswith("WITNESS")]
            unreached = [x["description"] for x in wp if x.get("status") != "FAILURE"]
            r["witness"] = {"points": len(wp), "unreached": unreached}
            if not wp or unreached:
                r["verdict"] = "INCONCLUSIVE"
                r["reason"] = "vacuity guard: witness points %d, unreached %s %s" % (len(wp), unreached, (pw["error"] or "")[:300])
    # counterexample extraction + native replay
    if r["verdict"] == "FAIL":
        r["replays"] = []
        gbv = os.path.join(wd, "v.gb")
        rc, txt, _ = goto_build(q, wd, ["-DVLOG=1"], gbv)
        seen = {}
        ngroups = 0
        for fx in r["failed"]:
            if fx["where"] in seen:
                fx["replay"] = seen[fx["where"]]
                continue
            ngroups += 1
            if ngroups > 4:
                continue
            tr = None
            for extra in (["--property", fx["property"]], []):
                cmdt = cbmc_cmd(q, gbv, trace=True) + extra
                rc, out, err, dtt = run(cmdt, max(q.timeout, 300), q.mem_gb, cwd=wd)
                pt = parse_cbmc(out)
                for x in pt["results"]:
                    if x.get("trace"):
                        tr = x["trace"]
                        break
                if tr is not None:
                    break
            if tr is None:
                fx["replay"] = {"reproduced": None, "text": "no trace obtained (rc=%s %s)" % (rc, pt["error"])}
                seen[fx["where"]] = fx["replay"]
                continue
            vals = vlog_from_trace(tr)
            h = hashlib.sha1(json.dumps(vals).encode()).hexdigest()[:10]
            if q.native_ok:
                rep, text, nrc = native_build_and_run(q, wd, vals, "replay_" + h)
            else:
                rep, text, nrc = None, "no native twin for this query (IR-level or model-level claim)", None
            rdir = os.path.join(ROOT, "replays", pid)
            os.makedirs(rdir, exist_ok=True)
            rpath = os.path.join(rdir, "%s-%s.json" % (re.sub(r"[^A-Za-z0-9_.-]", "_", q.name), h))
            with open(rpath, "w") as f:
                json.dump({"property_id": pid, "query": q.name, "failed_property": fx["property"],
                           "description": fx["description"], "where": fx["where"],
                           "values": vals, "native_reproduced": rep, "native_output": text[-1500:]}, f, indent=1)
            fx["replay"] = {"path": rpath, "reproduced": rep, "text": text[-600:], "native_rc": nrc}
            seen[fx["where"]] = fx["replay"]
    r["total_wall_s"] = round(time.time() - t0, 1)
    if not keep:
        shutil.rmtree(wd, ignore_errors=True)
    return r


def load_known():
    kf = {"known": [], "fixed": []}
    p = os.path.join(ROOT, "known_findings.txt")
    if os.path.exists(p):
        for line in open(p):
            line = line.strip()
            if not line or line.startswith("#"):
                continue
            m = re.match(r"^fixed:\s*property=(\S+)\s+(.*)$", line)
            if m:
                kf["fixed"].append((m.group(1), m.group(2)))
                continue
            m = re.match(r"^property=(\S+)\s+(\S+)\s+(.*)$", line)
            if m:
                kf["known"].append((m.group(1), m.group(2), m.group(3)))
    return kf


def match_known(kf, pid, qname, fx):
    """known entry key is '<query-glob>:<substring of assertion description>'"""
    import fnmatch
    for (kp, key, text) in kf["known"]:
        if kp != pid:
            continue
        qn, _, sub = key.partition(":")
        sub = sub.replace("_", " ")
        if fnmatch.fnmatch(qname, qn) and sub.lower() in (fx["description"] + " " + fx["property"]).lower():
            return text
    return None


def load_checks(pid):
    sys.path.insert(0, os.path.join(ROOT, "checks"))
    mod = importlib.import_module(pid)
    return mod


def git_head(path):
    try:
        return subprocess.check_output(["git", "-C", path, "rev-parse", "--short", "HEAD"], stderr=subprocess.DEVNULL).decode().strip()
    except Exception:
        return "?"


def cmd_check(pid, tier, only=None, keep=False, jobs=None):
    t0 = time.time()
    mod = load_checks(pid)
    qs = [q for q in mod.queries() if tier == "thorough" or q.tier == "quick"]
    if only:
        qs = [q for q in qs if only in q.name]
    extra = getattr(mod, "extra_checks", None)
    seed = int(os.environ.get("VERIF_SEED", "0") or 0)
    results = []
    jobs = jobs or int(os.environ.get("VERIF_JOBS", str(max(2, NCPU - 2))))
    with ThreadPoolExecutor(max_workers=jobs) as ex:
        futs = [ex.submit(run_query, pid, q, keep) for q in qs]
        extra_f = ex.submit(extra, tier, REPO, os.path.join(BUILD, pid)) if extra and not only else None
        for f in futs:
            results.append(f.result())
        extra_res = extra_f.result() if extra_f else []
    results += extra_res
    kf = load_known()
    violations = 0
    inconclusive = 0
    inconclusive_encoding = 0
    known_hits = []
    lines = []
    for r in results:
        if r["verdict"] == "PASS":
            continue
        if r["verdict"] == "INCONCLUSIVE":
            inconclusive += 1
            if r.get("kind") != "resource":
                inconclusive_encoding += 1
            lines.append("INCONCLUSIVE(%s) property=%s query=%s reason=%s" % (r.get("kind", "encoding"), pid, r["query"], r.get("reason", "")[:300].replace("\n", " ")))
            continue
        # FAIL
        any_unknown = False
        shown = set()
        for fx in r["failed"]:
            k = match_known(kf, pid, r["query"], fx)
            if k is not None:
                fx["known_finding"] = k
                known_hits.append((r["query"], fx, k))
                continue
            any_unknown = True
            rp = fx.get("replay")
            if rp is None:
                continue
            if fx["where"] in shown:
                continue
            shown.add(fx["where"])
            builtin = ".assertion." not in fx["property"]
            solver_only = (rp.get("path") and ((rp.get("reproduced") is None and not qs_native_ok(qs, r["query"])) or
                                               (builtin and rp.get("reproduced") is False and rp.get("native_rc") == 0)))
            if rp.get("reproduced") is True or solver_only:
                violations += 1
                lines.append("VIOLATION property=%s replay=%s" % (pid, rp["path"]))
                lines.append("  query=%s assertion=%s (%s)%s" % (r["query"], fx["description"], fx["where"],
                             " [solver-level: object-bounds/UB verdict of CBMC on the real code, input values in the replay file; not confirmable by ASan/UBSan]" if solver_only else ""))
            else:
                inconclusive += 1
                inconclusive_encoding += 1
                lines.append("INCONCLUSIVE(encoding) property=%s query=%s assertion=%s: counterexample did not reproduce natively: %s" %
                             (pid, r["query"], fx["description"], (rp.get("text") or "")[:200].replace("\n", " ")))
        if any_unknown and not any(fx.get("replay") for fx in r["failed"]):
            inconclusive += 1
            inconclusive_encoding += 1
        if not any_unknown:
            r["verdict"] = "KNOWN-FINDING"
    seenk = set()
    for (qn, fx, k) in known_hits:
        if k in seenk:
            continue
        seenk.add(k)
        print("KNOWN-FINDING: property=%s %s" % (pid, k))
    for l in lines:
        print(l)
    # evidence
    passed = [r for r in results if r["verdict"] == "PASS"]
    nontrivial = [r for r in passed if (r.get("stats", {}).get("vars", 0) > 0 or r.get("stats", {}).get("vccs", 0) > 0 or r.get("nontrivial")) and
                  (r.get("witness") or {}).get("points", 0) > 0 and not (r.get("witness") or {}).get("unreached")]
    meta = getattr(mod, "META", {})
    ev = {
        "property_id": pid, "tier": tier, "seed": seed, "level": "model_checking",
        "coverage": {
            "evaluations": len(results),
            "distinct_nontrivial": len(set(r["query"] for r in nontrivial)),
            "rule": "one evaluation = one bounded symbolic query (goto-cc of the harness and the real units from the current /repo tree, cbmc with unwinding assertions; or an SMT query of an encoder named in the sample); non-trivial = verdict PASS, the formula has >0 SAT variables or (SMT/external back ends, which report no variable count) >0 verification conditions generated (some are discharged by cbmc's own simplifier before the SAT/SMT call, e.g. observation equalities of constant-time code), and every WITNESS point of the -DWITNESS twin is reachable",
            "states": max(1, sum((r.get("stats", {}) or {}).get("steps", 0) or 0 for r in results)),
            "transitions": max(1, sum((r.get("stats", {}) or {}).get("vccs", 0) or 0 for r in results)),
            "traces_validated_against_impl": sum(1 for r in results for fx in r.get("failed", []) if (fx.get("replay") or {}).get("native_rc") is not None),
            "states_transitions_meaning": "bounded symbolic model checking has no explicit state graph: states = SSA steps of the symbolic executions of all queries (cbmc 'size of program expression'), transitions = verification conditions generated from them; traces_validated_against_impl = counterexample traces replayed against the natively compiled real code in this run",
            "obligations": sum(r.get("properties_checked", 0) for r in results),
            "discharged": sum(r.get("properties_checked", 0) - len(r.get("failed", [])) for r in results if r["verdict"] in ("PASS", "FAIL", "KNOWN-FINDING")),
            "samples": results,
            "solver_time_s": round(sum(r.get("stats", {}).get("solver_s", 0) or 0 for r in results), 1),
            "symex_time_s": round(sum(r.get("stats", {}).get("symex_s", 0) or 0 for r in results), 1),
            "inconclusive": inconclusive,
            "known_findings_hit": [k for (_, _, k) in known_hits],
            "repo_head": git_head(REPO), "verif_head": git_head(ROOT),
            "repo_defs": repo_cflags_defs(),
            "outside_claim": meta.get("outside_claim", []),
            "exhaustive": False,
        },
        "assumptions": meta.get("assumptions", []),
        "wall_s": round(time.time() - t0, 1),
        "violations": violations,
    }
    evdir = os.environ.get("VERIF_EVIDENCE_DIR") or os.path.join(ROOT, "evidence")
    os.makedirs(evdir, exist_ok=True)
    with open(os.path.join(evdir, pid + ".json"), "w") as f:
        json.dump(ev, f, indent=1)
    print("%s tier=%s queries=%d pass=%d known=%d violations=%d inconclusive=%d wall=%.0fs" %
          (pid, tier, len(results), len(passed), len(seenk), violations, inconclusive, time.time() - t0))
    for r in results:
        print("  %-14s %-44s %6.1fs  %s" % (r["verdict"], r["query"], r.get("total_wall_s", r.get("wall_s", 0)) or 0,
                                           (r.get("reason") or "")[:150].replace("\n", " ")))
    if violations:
        return 1
    if inconclusive_encoding:
        return 2
    return 0   # resource-inconclusive queries (time-outs, out of memory) are reported above and in the evidence, never as a pass of that query


def qs_native_ok(qs, name):
    for q in qs:
        if q.name == name:
            return q.native_ok
    return True


def cmd_replay(path):
    d = json.load(open(path))
    pid = d["property_id"]
    mod = load_checks(pid)
    q = [x for x in mod.queries() if x.name == d["query"]]
    if not q:
        print("unknown query", d["query"])
        return 2
    q = q[0]
    wd = os.path.join(BUILD, pid, "replay")
    shutil.rmtree(wd, ignore_errors=True)
    os.makedirs(wd)
    rep, text, nrc = native_build_and_run(q, wd, d["values"])
    print(text)
    print("reproduced:", rep)
    shutil.rmtree(wd, ignore_errors=True)
    return 1 if rep else 0


def main():
    a = sys.argv[1:]
    if not a:
        print(__doc__)
        return 2
    if a[0] == "check":
        pid = a[1]
        tier = os.environ.get("VERIF_TIER", "quick")
        only = None
        keep = False
        i = 2
        while i < len(a):
            if a[i] == "--tier":
                tier = a[i + 1]; i += 2
            elif a[i] == "--only":
                only = a[i + 1]; i += 2
            elif a[i] == "--keep":
                keep = True; i += 1
            else:
                i += 1
        return cmd_check(pid, tier, only, keep)
    if a[0] == "replay":
        return cmd_replay(a[1])
    if a[0] == "selfcheck":
        ok = True
        for tool in (["cbmc", "--version"], ["goto-cc", "--version"], ["gcc", "--version"], ["clang-14", "--version"], ["z3", "--version"]):
            try:
                out = subprocess.run(tool, stdout=subprocess.PIPE, stderr=subprocess.STDOUT, timeout=60).stdout.decode().splitlines()[0]
                print("%-10s %s" % (tool[0], out))
            except Exception as e:
                print("%-10s MISSING (%s)" % (tool[0], e)); ok = False
        os.makedirs(BUILD, exist_ok=True)
        return 0 if ok else 1
    if a[0] == "list":
        for f in sorted(glob.glob(os.path.join(ROOT, "checks", "C*.py"))):
            pid = os.path.basename(f)[:-3]
            mod = load_checks(pid)
            for q in mod.queries():
                print(pid, q.tier, q.name, q.desc)
        return 0
    print(__doc__)
    return 2


if __name__ == "__main__":
    sys.exit(main())
