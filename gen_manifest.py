#!/usr/bin/env python3
"""Regenerates MANIFEST.json from checks/C*.py (META) and the tables below."""
import json, os, sys, glob, importlib
ROOT = os.path.dirname(os.path.abspath(__file__))
sys.path.insert(0, ROOT); sys.path.insert(0, os.path.join(ROOT, "checks"))

HOOK_COMMITS = ["09f541b"]   # no hooks needed so far: static functions are reached by #include of the real .c file   # filled when hook commits exist in /repo
NOT_APPLICABLE = {} # pid -> reason, for properties with no check module
READY = ["C01", "C02", "C03", "C04", "C05", "C06", "C07", "C08", "C09", "C10", "C11", "C12", "C13", "C14", "C15", "C16", "C17", "C18", "C19", "C20"]   # check modules that are finished (others may be under construction)

props = [json.loads(l) for l in open(os.path.join(ROOT, "properties.jsonl"))]
checks = []
na = []
for p in props:
    pid = p["id"]
    if pid not in READY or not os.path.exists(os.path.join(ROOT, "checks", pid + ".py")):
        na.append({"property_id": pid, "reason": NOT_APPLICABLE.get(pid, "no solver-decided check built yet for this property (construction order: DESIGN.md section 6)")})
        continue
    mod = importlib.import_module(pid)
    m = mod.META
    c = {
        "property_id": pid,
        "quick_cmd": "python3 verif.py check %s --tier quick" % pid,
        "thorough_cmd": "python3 verif.py check %s --tier thorough" % pid,
        "evidence_file": "/verif/evidence/%s.json" % pid,
        "replay_cmd_template": "python3 verif.py replay {path}",
        "engine": "cbmc-harness",
        "level_claimed": {"category": "model_checking", "text": m["level_text"], "design_ref": m.get("design_ref", "DESIGN.md section 4, " + pid)},
        "level_note": m["level_note"],
        "technique": m.get("technique", "bounded symbolic model checking (CBMC/SAT) of the real C units with symbolic inputs; counterexamples replayed natively"),
    }
    checks.append(c)
man = {
    "version": 1,
    "setup_cmd": "python3 verif.py selfcheck",
    "hooks": {
        "guard": "BEARSSL_ESP8266_VERIF",
        "enable": "harness and units are compiled by goto-cc / gcc with -DBEARSSL_ESP8266_VERIF (verif.py config_defs); the only hook (src/rsa/rsa_i15_priv.c) additionally needs -DBR_VERIF_RSA_I15_ALIGN=0|1, set per query",
        "baseline_off_cmd": "make -C /repo -j8 > /dev/null && cd /repo && ./build/testx509",
        "source_commits": HOOK_COMMITS,
        "add_only": True,
    },
    "engines": [
        {"name": "t0tool", "path": "/verif/encoders/t0tool.py", "serves_properties": ["C05", "C03", "C04", "C07", "C15", "C16", "C18"],
         "kind_free_text": "encoders E2/E4: extracts the native words of the seven T0Comp-generated interpreters as C functions over the real context (validated against the real interpreter on the repo's test inputs each run), proves their stack effects with CBMC, and decides the VM stack bounds of the bytecode with z3"},
        {"name": "ir2c", "path": "/verif/encoders/ir2c.py", "serves_properties": ["C08"],
         "kind_free_text": "encoder E5: clang-14 LLVM IR of the real units -> C with observation hooks on branches, addresses, lengths and division operands; re-validated against the natively compiled real code on random inputs each run; self-composition harnesses are decided by CBMC"},
        {"name": "cbmc-harness", "path": "/verif/verif.py", "serves_properties": [c["property_id"] for c in checks],
         "kind_free_text": "driver: goto-cc of real units + dual-mode harness -> cbmc 6.11 (SAT back ends) with unwinding assertions, witness twin for vacuity, trace -> native ASan/UBSan replay, evidence writer"},
    ],
    "checks": checks,
    "not_applicable": na,
    "notes": "All checks are bounded symbolic checks of the real code (see DESIGN.md); bounds, stubs and what is outside each claim are written into each evidence file.",
}
json.dump(man, open(os.path.join(ROOT, "MANIFEST.json"), "w"), indent=1)
print("checks:", [c["property_id"] for c in checks], "n/a:", [x["property_id"] for x in na])
