#include "inner.h"
#include "pub_der.h"
#ifndef POS
#define POS 1
#endif
#ifndef WK
#define WK 2
#endif
void br_pkey_decoder_spec_run(void *ctx);
unsigned char nondet_uchar(void);
static unsigned char buf[sizeof pub_der];
static int g_calls;
static br_pkey_decoder_context dc;
static void final_check(void){
  int e = br_pkey_decoder_last_error(&dc);
  int kt = br_pkey_decoder_key_type(&dc);
  __CPROVER_assert(!(e!=0 && kt!=0), "err xor key");
  if (kt == BR_KEYTYPE_RSA) {
    const br_rsa_public_key *pk = br_pkey_decoder_get_rsa(&dc);
    __CPROVER_assert(pk->n >= dc.key_data && pk->nlen <= sizeof dc.key_data && pk->elen <= sizeof dc.key_data - pk->nlen, "key inside key_data");
  }
#ifdef WITNESS
  __CPROVER_assert(kt==0, "witness: some key decodes");
#endif
}
void t0_env_yield(void *ctx){
  if (dc.err != 0 || g_calls++ != 0) { final_check(); __CPROVER_assume(0); }
  dc.hbuf = buf; dc.hlen = sizeof buf;
}
int main(void){
  memcpy(buf, pub_der, sizeof buf);
  for (int i=0;i<WK;i++) buf[POS+i]=nondet_uchar();
  memset(&dc,0,sizeof dc); dc.cpu.dp=dc.dp_stack; dc.cpu.rp=dc.rp_stack;
  br_pkey_decoder_spec_run(&dc.cpu);
  final_check();
  return 0;
}
