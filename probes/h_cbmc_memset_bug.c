#include "inner.h"
uint16_t nondet_u16(void);
int main(void){
  uint16_t d[4];
  uint16_t bl = nondet_u16();
  __CPROVER_assume(bl==48);
  br_i15_zero(d, bl);
  __CPROVER_assert(d[1]==0 && d[2]==0 && d[3]==0, "zeroed");
  uint16_t e[4];
  br_i15_zero(e, 48);
  __CPROVER_assert(e[1]==0 && e[2]==0 && e[3]==0, "zeroed const");
}
