/* UF-abstracted multiplier: port-specific montymul vs upstream word-serial loop */
#include "inner.h"
#undef MUL15
uint32_t __CPROVER_uninterpreted_mul15(uint32_t, uint32_t);
#define MUL15(x, y) __CPROVER_uninterpreted_mul15((uint32_t)(x), (uint32_t)(y))
#include "/repo/src/int/i15_montmul.c"
#ifndef LEN
#define LEN 4
#endif
uint16_t nondet_u16(void);
static void ref_montymul(uint16_t *d, const uint16_t *x, const uint16_t *y, const uint16_t *m, uint16_t m0i){
  size_t len, u, v; uint32_t dh;
  len = (m[0] + 15) >> 4;
  br_i15_zero(d, m[0]);
  dh = 0;
  for (u = 0; u < len; u ++) {
    uint32_t f, xu, r, zh;
    xu = x[u + 1];
    f = MUL15((d[1] + MUL15(x[u + 1], y[1])) & 0x7FFF, m0i) & 0x7FFF;
    r = 0;
    for (v = 0; v < len; v ++) {
      uint32_t z;
      z = d[v + 1] + MUL15(xu, y[v + 1]) + MUL15(f, m[v + 1]) + r;
      r = z >> 15;
      d[v + 0] = z & 0x7FFF;
    }
    zh = dh + r;
    d[len] = zh & 0x7FFF;
    dh = zh >> 15;
  }
  d[0] = m[0];
  br_i15_sub(d, m, NEQ(dh, 0) | NOT(br_i15_sub(d, m, 0)));
}
int main(void){
  static uint32_t sy[(LEN+4)/2+1], sm[(LEN+4)/2+1];
  uint16_t x[LEN+1], d1[LEN+1], d2[LEN+1];
  uint16_t *y = (uint16_t*)sy + AY, *m = (uint16_t*)sm + AM;
  uint16_t bl = LEN*15; uint16_t enc = bl + (bl/15);
  x[0]=y[0]=m[0]=enc;
  for (int i=1;i<=LEN;i++){ x[i]=nondet_u16()&0x7FFF; y[i]=nondet_u16()&0x7FFF; m[i]=nondet_u16()&0x7FFF; }
  uint16_t m0i = nondet_u16();
  br_i15_montymul(d1,x,y,m,m0i);
  ref_montymul(d2,x,y,m,m0i);
  for (int i=0;i<=LEN;i++) __CPROVER_assert(d1[i]==d2[i],"montymul == reference");
#ifdef WITNESS
  __CPROVER_assert(0,"witness");
#endif
  return 0;
}
