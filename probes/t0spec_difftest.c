#include "inner.h"
#include <stdio.h>
#include <stdlib.h>
#include <setjmp.h>
static jmp_buf jb;
void br_pkey_decoder_spec_run(void *ctx);
static const unsigned char *g_buf; static size_t g_len, g_pos, g_chunk;
void t0_env_yield(void *ctx){
  br_pkey_decoder_context *dc = ctx;
  if (g_pos >= g_len) longjmp(jb,1);
  size_t c = g_len - g_pos; if (c > g_chunk) c = g_chunk;
  dc->hbuf = g_buf + g_pos; dc->hlen = c; g_pos += c;
}
static int cmp(br_pkey_decoder_context *a, br_pkey_decoder_context *b){
  if (a->err != b->err) return 1;
  if (a->key_type != b->key_type) return 2;
  if (memcmp(a->key_data,b->key_data,sizeof a->key_data)) return 3;
  if (memcmp(a->pad,b->pad,sizeof a->pad)) return 4;
  if ((a->cpu.dp - a->dp_stack) != (b->cpu.dp - b->dp_stack)) return 5;
  if ((a->cpu.rp - a->rp_stack) != (b->cpu.rp - b->rp_stack)) return 6;
  if (memcmp(a->dp_stack,b->dp_stack,sizeof a->dp_stack)) return 7;
  if (memcmp(a->rp_stack,b->rp_stack,sizeof a->rp_stack)) return 8;
  return 0;
}
int main(int argc,char**argv){
  unsigned char buf[4096]; 
  srand(1);
  int bad=0, ok=0, tot=0;
  for (int it=0; it<200000; it++){
    size_t n;
    /* structured-ish random: SEQ { SEQ { OID rsa, NULL }, BITSTRING { 0, SEQ { INT n, INT e }}} with mutations */
    static const unsigned char tmpl[] = {0x30,0x1a,0x30,0x0d,0x06,0x09,0x2a,0x86,0x48,0x86,0xf7,0x0d,0x01,0x01,0x01,0x05,0x00,0x03,0x09,0x00,0x30,0x06,0x02,0x01,0x55,0x02,0x01,0x03};
    memcpy(buf,tmpl,sizeof tmpl); n=sizeof tmpl;
    int muts = rand()%4;
    for (int m=0;m<muts;m++) buf[rand()%n] = rand();
    if (rand()%8==0) n = rand()%(n+1);
    g_chunk = 1 + rand()%(n+1);
    br_pkey_decoder_context a,b;
    br_pkey_decoder_init(&a);
    for (size_t p=0;p<n && a.cpu.ip;p+=g_chunk){ size_t c=n-p; if(c>g_chunk)c=g_chunk; br_pkey_decoder_push(&a,buf+p,c);}    
    memset(&b,0,sizeof b); b.cpu.dp=b.dp_stack; b.cpu.rp=b.rp_stack;
    g_buf=buf; g_len=n; g_pos=0;
    if (!setjmp(jb)) br_pkey_decoder_spec_run(&b.cpu);
    int r = cmp(&a,&b);
    tot++; if (r){ bad++; if (bad<5) printf("MISMATCH %d it=%d n=%zu chunk=%zu err %d/%d\n",r,it,n,g_chunk,a.err,b.err);} 
    if (br_pkey_decoder_last_error(&a)==0) ok++;
  }
  printf("tot=%d bad=%d decoded_ok=%d\n",tot,bad,ok);
  return bad!=0;
}
