#include "inner.h"
#define BUFLEN 1200
size_t nondet_size(void); unsigned char nondet_uchar(void); int nondet_int(void); unsigned nondet_uint(void);
static unsigned char iobuf[BUFLEN];
static int hs_calls;
/* contract stub of the handshake coroutine */
static void stub_hsrun(void *t0ctx){
  br_ssl_engine_context *cc = (br_ssl_engine_context *)((unsigned char *)t0ctx - offsetof(br_ssl_engine_context, cpu));
  hs_calls ++;
  size_t cin = nondet_size(); __CPROVER_assume(cin <= cc->hlen_in); cc->hbuf_in += cin; cc->hlen_in -= cin;
  size_t cout = nondet_size(); __CPROVER_assume(cout <= cc->hlen_out); cc->hbuf_out += cout; cc->hlen_out -= cout;
  if (nondet_int()) cc->application_data = nondet_uchar() % 3;
  if (nondet_int()) br_ssl_engine_fail(cc, 1 + (nondet_uint() & 0xFF));
}
static int inv(const br_ssl_engine_context *cc){
  if (cc->iomode > 3) return 0;
  if (cc->iomode == BR_IO_FAILED) return cc->err != 0;
  if (cc->ixa > cc->ixb || cc->ixb > cc->ibuf_len) return 0;
  if (cc->ixa < 5) { if (cc->ixa != cc->ixb || cc->ixc != 5 - cc->ixa) return 0; }
  else { if (cc->ixc > 16384) return 0; }
  if (cc->oxc <= cc->oxa) { if (!(cc->oxa <= cc->oxb && cc->oxb <= cc->obuf_len && cc->oxc >= 5)) return 0; }
  else { if (!(cc->oxa == cc->oxb && cc->oxc <= cc->obuf_len)) return 0; }
  return 1;
}
int main(void){
  static br_ssl_engine_context cc;
  cc.ibuf = iobuf; cc.obuf = iobuf; cc.ibuf_len = BUFLEN; cc.obuf_len = BUFLEN;   /* shared buffer */
  cc.iomode = nondet_uchar(); cc.err = nondet_int(); cc.incrypt = 0;
  cc.ixa = nondet_size(); cc.ixb = nondet_size(); cc.ixc = nondet_size();
  cc.oxa = nondet_size(); cc.oxb = nondet_size(); cc.oxc = nondet_size();
  cc.record_type_in = nondet_uchar(); cc.record_type_out = nondet_uchar();
  cc.version_in = nondet_uint() & 0xFFFF; cc.version_out = nondet_uint() & 0xFFFF;
  cc.application_data = nondet_uchar() % 3; cc.shutdown_recv = nondet_uchar() & 1;
  cc.max_frag_len = 512; cc.out.vtable = &br_sslrec_out_clear_vtable; cc.hsrun = stub_hsrun;
  for (int i = 0; i < 5; i ++) iobuf[i] = nondet_uchar();
  __CPROVER_assume(inv(&cc));
  size_t len; unsigned char *b = br_ssl_engine_recvrec_buf(&cc, &len);
  __CPROVER_assume(b != NULL);
  __CPROVER_assert(len > 0 && b >= iobuf && b + len <= iobuf + BUFLEN, "recvrec region inside buffer");
  size_t n = nondet_size(); __CPROVER_assume(n >= 1 && n <= len);
  for (size_t i = 0; i < 5; i ++) if (b + i < iobuf + 5 && i < n) b[i] = nondet_uchar();   /* transport writes header bytes */
  int was_err = cc.err;
  br_ssl_engine_recvrec_ack(&cc, n);
  __CPROVER_assert(inv(&cc), "invariant preserved");
  unsigned st = br_ssl_engine_current_state(&cc);
  __CPROVER_assert(!(st & BR_SSL_CLOSED) || st == BR_SSL_CLOSED, "closed excludes others");
  __CPROVER_assert(!((st & BR_SSL_RECVREC) && (st & BR_SSL_RECVAPP)), "not recvrec and recvapp");
  __CPROVER_assert(!((st & BR_SSL_SENDREC) && (st & BR_SSL_SENDAPP)), "not sendrec and sendapp");
  size_t l2; unsigned char *p;
  p = br_ssl_engine_recvapp_buf(&cc, &l2); __CPROVER_assert((p != NULL) == ((st & BR_SSL_RECVAPP) != 0) && (!p || (l2 > 0 && p >= iobuf && p + l2 <= iobuf + BUFLEN)), "recvapp region");
  p = br_ssl_engine_sendapp_buf(&cc, &l2); __CPROVER_assert(!p || (l2 > 0 && p >= iobuf && p + l2 <= iobuf + BUFLEN), "sendapp region");
  p = br_ssl_engine_sendrec_buf(&cc, &l2); __CPROVER_assert(!p || (l2 > 0 && p >= iobuf && p + l2 <= iobuf + BUFLEN), "sendrec region");
#ifdef WITNESS
  __CPROVER_assert(hs_calls == 0, "witness: coroutine entered on some path");
#endif
  return 0;
}
