#include "toy.h"
#include "/repo/src/ssl/ssl_rec_cbc.c"
#ifndef RL
#define RL 48
#endif
unsigned char nondet_uchar(void); uint64_t nondet_u64(void); unsigned nondet_uint(void);
/* reference: RFC 5246 6.2.3.2, not constant time */
static unsigned char *ref_decrypt(br_sslrec_in_cbc_context *cc, int type, unsigned ver, unsigned char *data, size_t *len){
  size_t n = *len; unsigned char *buf = data;
  cc->bc.vtable->run(&cc->bc.vtable, cc->iv, data, n);
  if (cc->explicit_IV) { buf += 16; n -= 16; }
  unsigned pad = buf[n-1]; int ok = 1;
  uint64_t seq = cc->seq ++;
  size_t plen;
  if ((size_t)pad + 1 + cc->mac_len > n) { ok = 0; plen = 0; }
  else { for (size_t i = n - 1 - pad; i < n - 1; i++) if (buf[i] != pad) ok = 0; plen = n - 1 - pad - cc->mac_len; }
  if (!ok) return 0;
  unsigned char hdr[13], mac[64]; br_hmac_context hc; int macok = 0;
  /* concretise plen: each branch has concrete loop bounds */
  for (size_t k = 0; k + 1 + cc->mac_len <= n; k ++) {
    if (plen == k) {
      br_enc64be(hdr, seq); hdr[8] = type; br_enc16be(hdr+9, ver); br_enc16be(hdr+11, k);
      br_hmac_init(&hc, &cc->mac, cc->mac_len); br_hmac_update(&hc, hdr, 13); br_hmac_update(&hc, buf, k); br_hmac_out(&hc, mac);
      macok = 1; for (size_t j = 0; j < cc->mac_len; j ++) if (mac[j] != buf[k + j]) macok = 0;
    }
  }
  if (!macok) return 0;
  if (plen > 16384) return 0;
  *len = plen; return buf;
}
int main(void){
  unsigned char key[16], mkey[16], rec1[RL], rec2[RL];
  for (int i=0;i<16;i++){ key[i]=nondet_uchar(); mkey[i]=nondet_uchar(); }
  for (int i=0;i<RL;i++) rec1[i]=rec2[i]=nondet_uchar();
  br_sslrec_in_cbc_context c1, c2;
  const br_block_cbcdec_class *bc = &toy_cbcdec_vtable;
  in_cbc_init(&c1, bc, key, 16, &toy_hash_vtable, mkey, 16, 16, NULL);
  uint64_t s = nondet_u64(); c1.seq = s; c2 = c1;
  int type = nondet_uchar(); unsigned ver = nondet_uint() & 0xFFFF;
  __CPROVER_assert(cbc_check_length(&c1, RL), "length admissible");
  size_t l1 = RL, l2 = RL;
  unsigned char *p1 = cbc_decrypt(&c1, type, ver, rec1, &l1);
  unsigned char *p2 = ref_decrypt(&c2, type, ver, rec2, &l2);
  __CPROVER_assert((p1 == 0) == (p2 == 0), "accept iff reference accepts");
  if (p1) { __CPROVER_assert(l1 == l2 && (p1 - rec1) == (p2 - rec2), "same region");
    for (size_t i = 0; i < l1; i++) __CPROVER_assert(p1[i] == p2[i], "same plaintext"); }
  __CPROVER_assert(c1.seq == s + 1 && c2.seq == s + 1, "seq + 1");
#ifdef WITNESS
  __CPROVER_assert(p1 == 0, "witness: some record is accepted");
#endif
  return 0;
}
