/*
 * C11: the glue of br_ec_p256_m15.muladd after the two scalar
 * multiplications: p256_add + "is the sum the point at infinity" test +
 * doubling fallback + error report (src/ec/ec_p256_m15.c api_muladd).
 *
 * The unit is a copy of /repo's ec_p256_m15.c regenerated on every run by
 * checks/C11.py in which ONLY the heads of the definitions of p256_mul,
 * p256_mulgen, p256_to_affine and p256_encode are renamed REAL_*; the calls
 * inside api_muladd are bound (function-like macros below) to stubs:
 *   p256_mul / p256_mulgen : contract stub "the product is the Jacobian point
 *       the harness chose" (call 0 -> x*A, call 1 -> y*B); scalars are
 *       symbolic and ignored;
 *   p256_to_affine : identity;  p256_encode : records the Jacobian point.
 * p256_decode, p256_add, p256_double, reduce_final_f256, mul_f256, ... are the
 * real code.  Points are concrete (G, 2G in Jacobian form with z != 1, -G,
 * -2G): the field arithmetic is decided by symbolic execution; scalars and
 * the choice B given / B == NULL are symbolic.
 *
 * SCEN 0: x*A == y*B == G (z = 1)        => 1, result == p256_double(G)
 * SCEN 1: x*A == y*B == 2G (z != 1)      => 1, result == p256_double(2G)
 * SCEN 2: x*A == G, y*B == -G            => 0 (sum is the point at infinity)
 * SCEN 3: x*A == 2G, y*B == -2G (z != 1) => 0
 * SCEN 4: x*A == G, y*B == 2G            => 1, x,y of the result == p256_add(G, 2G)
 */
#include "common.h"
#include "inner.h"

#ifndef SCEN
#define SCEN 0
#endif

static uint32_t stub_pt[2][60];
static int stub_calls, aff_calls, enc_calls;
static uint32_t enc_rec[60];

static void
STUB_mul(uint32_t *P, const unsigned char *x, size_t xlen)
{
	int i;

	(void)x;
	(void)xlen;
	for (i = 0; i < 60; i ++) {
		P[i] = stub_pt[stub_calls & 1][i];
	}
	stub_calls ++;
}

static void
STUB_affine(uint32_t *P)
{
	(void)P;
	aff_calls ++;
}

static void
STUB_encode(void *dst, const uint32_t *P)
{
	int i;

	(void)dst;
	for (i = 0; i < 60; i ++) {
		enc_rec[i] = P[i];
	}
	enc_calls ++;
}

#define p256_mul(P, x, xlen)     STUB_mul((uint32_t *)(P), (x), (xlen))
#define p256_mulgen(P, x, xlen)  STUB_mul((uint32_t *)(P), (x), (xlen))
#define p256_to_affine(P)        STUB_affine((uint32_t *)(P))
#define p256_encode(dst, P)      STUB_encode((dst), (const uint32_t *)(P))
#include "C11_p256m15_glue_gen.c"

static const unsigned char FIELD_P[32] = {
	0xFF,0xFF,0xFF,0xFF,0x00,0x00,0x00,0x01,0x00,0x00,0x00,0x00,0x00,0x00,0x00,0x00,
	0x00,0x00,0x00,0x00,0xFF,0xFF,0xFF,0xFF,0xFF,0xFF,0xFF,0xFF,0xFF,0xFF,0xFF,0xFF };

int
main(void)
{
	unsigned char A[65], B[65], NG[65], x[2], y[2];
	const unsigned char *G;
	size_t glen;
	p256_jacobian T, N, E;
	uint32_t r, ok;
	int i, cc, useB;

	G = api_generator(23, &glen);
	ASSUME(glen == 65);
	for (i = 0; i < 65; i ++) {
		A[i] = G[i];
		B[i] = G[i];
		NG[i] = G[i];
	}
	/* -G: y := p - Gy (big-endian byte subtraction, concrete) */
	cc = 0;
	for (i = 31; i >= 0; i --) {
		int w = (int)FIELD_P[i] - (int)G[33 + i] - cc;
		cc = w < 0;
		NG[33 + i] = (unsigned char)(w & 0xFF);
	}
	ok = p256_decode(&T, G, 65);
	ok &= p256_decode(&N, NG, 65);
	ASSUME(ok == 1);
#if SCEN == 1 || SCEN == 3
	p256_double(&T);
	p256_double(&N);
#endif
	memcpy(stub_pt[0], &T, sizeof T);
#if SCEN == 0 || SCEN == 1
	memcpy(stub_pt[1], &T, sizeof T);
	E = T;
	p256_double(&E);
#elif SCEN == 2 || SCEN == 3
	memcpy(stub_pt[1], &N, sizeof N);
#else
	E = T;
	p256_double(&E);
	memcpy(stub_pt[1], &E, sizeof E);
	N = T;
	(void)p256_add(&N, &E);
#endif

	ND_BYTES(x, 2);
	ND_BYTES(y, 2);
	useB = ND_U8() & 1;
	r = api_muladd(A, useB ? B : NULL, 65, x, 2, y, 2, 23);

	CHECK(stub_calls == 2 && aff_calls == 1 && enc_calls == 1,
		"two scalar multiplications, one conversion, one encoding");
#if SCEN == 0 || SCEN == 1
	CHECK(r == 1, "equal terms: muladd succeeds");
	ok = 1;
	for (i = 0; i < 20; i ++) {
		ok &= (enc_rec[i] == E.x[i]) & (enc_rec[20 + i] == E.y[i])
			& (enc_rec[40 + i] == E.z[i]);
	}
	CHECK(ok == 1, "equal terms: the result is the doubled point");
#elif SCEN == 2 || SCEN == 3
	CHECK(r == 0, "opposite terms: the point at infinity is reported as an error");
#else
	CHECK(r == 1, "distinct terms: muladd succeeds");
	ok = 1;
	for (i = 0; i < 20; i ++) {
		ok &= (enc_rec[i] == N.x[i]) & (enc_rec[20 + i] == N.y[i]);
	}
	CHECK(ok == 1, "distinct terms: the result is the sum");
#endif
	WITNESS_POINT("muladd glue ran to the end");
	return 0;
}
