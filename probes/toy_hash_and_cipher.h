/* toy primitives with the real interface contracts */
#include "inner.h"
typedef struct { const br_hash_class *vtable; unsigned char buf[64]; uint64_t count; uint32_t val[4]; } toy_hash_context;
static void toy_round(const unsigned char *buf, uint32_t *val){
  for (int i = 0; i < 16; i ++) { uint32_t w = br_dec32le(buf + 4*i); val[i & 3] = ((val[i & 3] ^ w) << 5 | (val[i & 3] ^ w) >> 27) + val[(i + 1) & 3]; }
}
static void toy_init(const br_hash_class **c){ toy_hash_context *cc=(void*)c; cc->count=0; cc->val[0]=0x67452301; cc->val[1]=0xEFCDAB89; cc->val[2]=0x98BADCFE; cc->val[3]=0x10325476; }
static void toy_update(const br_hash_class **c, const void *data, size_t len){ toy_hash_context *cc=(void*)c; const unsigned char *p=data; size_t ptr=(size_t)cc->count & 63;
  while (len > 0) { size_t clen = 64 - ptr; if (clen > len) clen = len; memcpy(cc->buf + ptr, p, clen); ptr += clen; p += clen; len -= clen; cc->count += clen; if (ptr == 64) { toy_round(cc->buf, cc->val); ptr = 0; } } }
static void toy_out(const br_hash_class *const *c, void *dst){ const toy_hash_context *cc=(const void*)c; unsigned char buf[64]; uint32_t val[4]; size_t ptr=(size_t)cc->count & 63;
  memcpy(buf, cc->buf, ptr); memcpy(val, cc->val, sizeof val); buf[ptr ++] = 0x80;
  if (ptr > 56) { memset(buf + ptr, 0, 64 - ptr); toy_round(buf, val); memset(buf, 0, 56); } else { memset(buf + ptr, 0, 56 - ptr); }
  br_enc64le(buf + 56, cc->count << 3); toy_round(buf, val); for (int i=0;i<4;i++) br_enc32le((unsigned char*)dst + 4*i, val[i]); }
static uint64_t toy_state(const br_hash_class *const *c, void *dst){ const toy_hash_context *cc=(const void*)c; for (int i=0;i<4;i++) br_enc32le((unsigned char*)dst + 4*i, cc->val[i]); return cc->count; }
static void toy_set_state(const br_hash_class **c, const void *stb, uint64_t count){ toy_hash_context *cc=(void*)c; for (int i=0;i<4;i++) cc->val[i]=br_dec32le((const unsigned char*)stb+4*i); cc->count=count; }
static const br_hash_class toy_hash_vtable = { sizeof(toy_hash_context),
  BR_HASHDESC_ID(1) | BR_HASHDESC_OUT(16) | BR_HASHDESC_STATE(16) | BR_HASHDESC_LBLEN(6) | BR_HASHDESC_MD_PADDING,
  toy_init, toy_update, toy_out, toy_state, toy_set_state };
typedef struct { const br_block_cbcdec_class *vtable; unsigned char k[16]; } toy_cbcdec;
static void toy_cbcdec_init(const br_block_cbcdec_class **c, const void *key, size_t len){ toy_cbcdec *cc=(void*)c; cc->vtable = *c; memset(cc->k,0,16); memcpy(cc->k,key,len>16?16:len); }
static void toy_cbcdec_run(const br_block_cbcdec_class *const *c, void *iv, void *data, size_t len){ const toy_cbcdec *cc=(const void*)c; unsigned char *buf=data, *ivb=iv;
  for (size_t u=0; u+16<=len; u+=16) { unsigned char t[16]; memcpy(t, buf+u, 16); for (int i=0;i<16;i++) buf[u+i] = buf[u+i] ^ cc->k[i] ^ ivb[i]; memcpy(ivb, t, 16); } }
static const br_block_cbcdec_class toy_cbcdec_vtable = { sizeof(toy_cbcdec), 16, 4, toy_cbcdec_init, toy_cbcdec_run };
