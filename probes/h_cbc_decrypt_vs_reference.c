/* CBC decrypt vs reference, HMAC replaced at the link-time seam by a toy MAC */
#include "inner.h"
typedef struct { const br_block_cbcdec_class *vtable; unsigned char k[16]; } toy_cbcdec;
static const br_block_cbcdec_class toy_cbcdec_vtable;
static void toy_cbcdec_init(const br_block_cbcdec_class **c, const void *key, size_t len){ toy_cbcdec *cc=(void*)c; cc->vtable = &toy_cbcdec_vtable; for (int i=0;i<16;i++) cc->k[i]=((const unsigned char*)key)[i]; }
static void toy_cbcdec_run(const br_block_cbcdec_class *const *c, void *iv, void *data, size_t len){ const toy_cbcdec *cc=(const void*)c; unsigned char *buf=data, *ivb=iv;
  for (size_t u=0; u+16<=len; u+=16) { unsigned char t[16]; for (int i=0;i<16;i++) t[i]=buf[u+i]; for (int i=0;i<16;i++) buf[u+i] = buf[u+i] ^ cc->k[i] ^ ivb[i]; for (int i=0;i<16;i++) ivb[i]=t[i]; } }
static const br_block_cbcdec_class toy_cbcdec_vtable = { sizeof(toy_cbcdec), 16, 4, toy_cbcdec_init, toy_cbcdec_run };
/* toy MAC: accumulator kept in ctx->kso[0..8) */
static uint64_t mix(uint64_t a, unsigned b){ uint32_t lo = (uint32_t)a + b + 1; uint32_t hi = (uint32_t)(a >> 32); hi = ((hi << 1) | (hi >> 31)) ^ b; return ((uint64_t)hi << 32) | lo; }
void br_hmac_key_init(br_hmac_key_context *kc, const br_hash_class *d, const void *key, size_t len){ uint64_t a = 1; for (size_t i=0;i<len;i++) a = mix(a, ((const unsigned char*)key)[i]); br_enc64le(kc->ksi, a); }
void br_hmac_init(br_hmac_context *ctx, const br_hmac_key_context *kc, size_t out_len){ for (int i=0;i<8;i++) ctx->kso[i] = kc->ksi[i]; ctx->out_len = out_len; }
void br_hmac_update(br_hmac_context *ctx, const void *data, size_t len){ uint64_t a = br_dec64le(ctx->kso); for (size_t i=0;i<len;i++) a = mix(a, ((const unsigned char*)data)[i]); br_enc64le(ctx->kso, a); }
static void fin(uint64_t a, size_t n, unsigned char *out){ for (size_t i=0;i<n;i++){ a = mix(a, 0xA5); out[i] = (unsigned char)(a >> 24); } }
size_t br_hmac_out(const br_hmac_context *ctx, void *out){ fin(br_dec64le(ctx->kso), ctx->out_len, out); return ctx->out_len; }
size_t br_hmac_outCT(const br_hmac_context *ctx, const void *data, size_t len, size_t min_len, size_t max_len, void *out){
  __CPROVER_assert(min_len <= len && len <= max_len, "outCT precondition");
  uint64_t a = br_dec64le(ctx->kso); for (size_t i=0;i<max_len;i++) { uint64_t b = mix(a, ((const unsigned char*)data)[i]); a = (i < len) ? b : a; }
  fin(a, ctx->out_len, out); return ctx->out_len; }
#include "/repo/src/ssl/ssl_rec_cbc.c"
#ifndef RL
#define RL 48
#endif
#ifndef ML
#define ML 16
#endif
unsigned char nondet_uchar(void); uint64_t nondet_u64(void); unsigned nondet_uint(void);
static unsigned char *ref_decrypt(br_sslrec_in_cbc_context *cc, int type, unsigned ver, unsigned char *data, size_t *len){
  size_t n = *len; unsigned char *buf = data;
  cc->bc.vtable->run(&cc->bc.vtable, cc->iv, data, n);
  if (cc->explicit_IV) { buf += 16; n -= 16; }
  unsigned pad = buf[n-1]; int ok = 1; uint64_t seq = cc->seq ++; size_t plen = 0;
  if ((size_t)pad + 1 + cc->mac_len > n) ok = 0;
  else { for (size_t i = 0; i < n - 1; i++) if (i >= n - 1 - pad && buf[i] != pad) ok = 0; plen = n - 1 - pad - cc->mac_len; }
  if (!ok) return 0;
  unsigned char hdr[13], mac[64]; br_hmac_context hc;
  br_enc64be(hdr, seq); hdr[8] = type; br_enc16be(hdr+9, ver); br_enc16be(hdr+11, plen);
  br_hmac_init(&hc, &cc->mac, cc->mac_len); br_hmac_update(&hc, hdr, 13);
  br_hmac_outCT(&hc, buf, plen, 0, n - 1 - cc->mac_len, mac);
  int macok = 0;
  for (size_t k = 0; k + 1 + cc->mac_len <= n; k ++) if (plen == k) { macok = 1; for (size_t j = 0; j < cc->mac_len; j ++) if (mac[j] != buf[k + j]) macok = 0; }
  if (!macok || plen > 16384) return 0;
  *len = plen; return buf;
}
int main(void){
  unsigned char key[16], mkey[16], rec1[RL], rec2[RL];
  for (int i=0;i<16;i++){ key[i]=nondet_uchar(); mkey[i]=nondet_uchar(); }
  for (int i=0;i<RL;i++) rec1[i]=rec2[i]=nondet_uchar();
  br_sslrec_in_cbc_context c1, c2;
  in_cbc_init(&c1, &toy_cbcdec_vtable, key, 16, 0, mkey, ML, ML, NULL);
  uint64_t s = nondet_u64(); c1.seq = s; c2 = c1;
  int type = nondet_uchar(); unsigned ver = nondet_uint() & 0xFFFF;
  __CPROVER_assert(cbc_check_length(&c1, RL), "length admissible");
  size_t l1 = RL, l2 = RL;
  unsigned char *p1 = cbc_decrypt(&c1, type, ver, rec1, &l1);
  unsigned char *p2 = ref_decrypt(&c2, type, ver, rec2, &l2);
  __CPROVER_assert((p1 == 0) == (p2 == 0), "accept iff reference accepts");
  if (p1) { __CPROVER_assert(l1 == l2 && (p1 - rec1) == (p2 - rec2), "same region");
    for (size_t i = 0; i < RL; i++) if (i < l1) __CPROVER_assert(p1[i] == p2[i], "same plaintext"); }
  __CPROVER_assert(c1.seq == s + 1 && c2.seq == s + 1, "seq + 1");
#ifdef WITNESS
  __CPROVER_assert(p1 == 0, "witness: some record is accepted");
#endif
  return 0;
}
