#include <stdio.h>
#include <stdlib.h>
#define main cbmc_main
#include <stdint.h>
uint16_t nondet_u16(void){return (uint16_t)rand();}
#define __CPROVER_assume(x) do{ if(!(x)) return 0; }while(0)
#define __CPROVER_assert(c,m) do{ if(!(c)) { printf("FAIL %s i=%d d1=%u d2=%u\n", m, i, d1[i], d2[i]); bad=1;} }while(0)
static int bad;
#include "h7.c"
#undef main
int main(void){ srand(3); for(int k=0;k<100000;k++) cbmc_main(); printf("bad=%d\n",bad); return bad; }
