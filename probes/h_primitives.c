#include "inner.h"
uint32_t nondet_u32(void);
int main(void){
  uint32_t x=nondet_u32(), y=nondet_u32();
  __CPROVER_assert(EQ(x,y) == (x==y), "EQ");
  __CPROVER_assert(GT(x,y) == (x>y), "GT");
  __CPROVER_assert(MUX(EQ(x,y),x,y)==y, "mux");
  return 0;
}
