#include "inner.h"
#ifndef L
#define L 16
#endif
void br_pkey_decoder_spec_run(void *ctx);
unsigned char nondet_uchar(void);
static unsigned char buf[L];
static int g_calls;
static br_pkey_decoder_context dc;
static void final_check(void){
  int e = br_pkey_decoder_last_error(&dc);
  int kt = br_pkey_decoder_key_type(&dc);
  __CPROVER_assert(!(e!=0 && kt!=0), "err xor key");
#ifdef WITNESS
  __CPROVER_assert(kt==0, "witness: some key decodes");
#endif
}
void t0_env_yield(void *ctx){
  if (dc.err != 0 || g_calls++ != 0) { final_check(); __CPROVER_assume(0); }
  dc.hbuf = buf; dc.hlen = L;
}
int main(void){
  for (int i=0;i<L;i++) buf[i]=nondet_uchar();
  memset(&dc,0,sizeof dc); dc.cpu.dp=dc.dp_stack; dc.cpu.rp=dc.rp_stack;
  br_pkey_decoder_spec_run(&dc.cpu);
  final_check();
  return 0;
}
