#!/usr/bin/env python3
"""Prototype T0 bytecode specialiser: generated interpreter .c -> structured C.
usage: t0spec.py <generated.c> <out.c> [--resumable]
"""
import re, subprocess, sys, os, tempfile

def dump_arrays(src, incs):
    d = tempfile.mkdtemp()
    dumper = os.path.join(d, "dump.c")
    with open(dumper, "w") as f:
        f.write('#include <stdio.h>\n#include "%s"\n' % src)
        f.write('int main(void){size_t i;\n')
        f.write('printf("C");for(i=0;i<sizeof t0_codeblock;i++)printf(" %u",t0_codeblock[i]);printf("\\n");\n')
        f.write('printf("A");for(i=0;i<sizeof t0_caddr/sizeof t0_caddr[0];i++)printf(" %u",t0_caddr[i]);printf("\\n");\n')
        f.write('printf("I %d\\n",T0_INTERPRETED);return 0;}\n')
    exe = os.path.join(d, "dump")
    subprocess.check_call(["gcc", "-w", "-o", exe, dumper] + incs + ["-Wl,--unresolved-symbols=ignore-all"])
    out = subprocess.check_output([exe]).decode().splitlines()
    code = [int(x) for x in out[0].split()[1:]]
    caddr = [int(x) for x in out[1].split()[1:]]
    interp = int(out[2].split()[1])
    return code, caddr, interp

def parse7E_u(code, p):
    x = 0
    while True:
        y = code[p]; p += 1
        x = ((x << 7) | (y & 0x7F)) & 0xFFFFFFFF
        if y < 0x80:
            return x, p

def parse7E_s(code, p):
    neg = (code[p] >> 6) & 1
    x = 0xFFFFFFFF if neg else 0
    while True:
        y = code[p]; p += 1
        x = ((x << 7) | (y & 0x7F)) & 0xFFFFFFFF
        if y < 0x80:
            if neg:
                return x - (1 << 32), p
            return x, p

def extract_natives(text):
    """returns {N: (name, body)}"""
    m = re.search(r'^br_\w+_run\(void \*t0ctx\)', text, re.M)
    run = text[m.start():]
    nat = {}
    for cm in re.finditer(r'\n\t\t\tcase (\d+): \{\n', run):
        n = int(cm.group(1))
        i = cm.end()
        depth = 1
        j = i
        while depth:
            c = run[j]
            if c == '{': depth += 1
            elif c == '}': depth -= 1
            j += 1
        body = run[i:j-1]
        nm = re.match(r'\s*/\* (.*?) \*/', body)
        nat[n] = (nm.group(1) if nm else "?", body)
    return nat

def main():
    src, out = sys.argv[1], sys.argv[2]
    incs = ["-I/repo/inc", "-I/repo/src"]
    text = open(src).read()
    code, caddr, interp = dump_arrays(src, incs)
    nat = extract_natives(text)
    entries = re.findall(r'^T0_DEFENTRY\((\w+), (\d+)\)', text, re.M)
    # prologue: everything before "#define T0_INTERPRETED"
    pro_end = text.index('#define T0_INTERPRETED')
    prologue = text[:pro_end]
    starts = sorted(set(caddr))
    ends = {s: (starts[i+1] if i+1 < len(starts) else len(code)) for i, s in enumerate(starts)}
    o = []
    o.append(prologue)
    o.append('#define T0_INTERPRETED %d\n' % interp)
    o.append(r'''
/* ---- specialised T0 program ---- */
static void *t0_memcpy(void *d, const void *s, size_t n) { size_t i; for (i = 0; i < n; i ++) ((unsigned char *)d)[i] = ((const unsigned char *)s)[i]; return d; }
static int t0_memcmp(const void *a, const void *b, size_t n) { size_t i; for (i = 0; i < n; i ++) { int x = ((const unsigned char *)a)[i], y = ((const unsigned char *)b)[i]; if (x != y) return x - y; } return 0; }
#undef memcpy_P
#undef memcmp_P
#define memcpy_P t0_memcpy
#define memcmp_P t0_memcmp
#define memcpy t0_memcpy
#define memcmp t0_memcmp
static uint32_t t0_dpi, t0_rpi;
static void *t0ctx;
static unsigned char *T0_ADDR(uint32_t addr);

static CONTEXT_NAME *t0_cc;
#undef CTX
#define CTX t0_cc
extern void t0_env_yield(void *ctx);   /* harness: supply next chunk and return, or never return */
#define T0_DS   (CTX->dp_stack)
#define T0_RS   (CTX->rp_stack)
#define T0_LOCAL(x)    (T0_RS[t0_rpi - 2 - (x)])
#define T0_POP()       (T0_DS[-- t0_dpi])
#define T0_POPi()      ((int32_t)T0_DS[-- t0_dpi])
#define T0_PEEK(x)     (T0_DS[t0_dpi - 1 - (x)])
#define T0_PEEKi(x)    ((int32_t)T0_DS[t0_dpi - 1 - (x)])
#define T0_PUSH(v)     do { uint32_t t0v_ = (v); T0_DS[t0_dpi] = t0v_; t0_dpi ++; } while (0)
#define T0_PUSHi(v)    do { int32_t t0v_ = (v); T0_DS[t0_dpi] = (uint32_t)t0v_; t0_dpi ++; } while (0)
#define T0_RPOP()      (T0_RS[-- t0_rpi])
#define T0_RPOPi()     ((int32_t)T0_RS[-- t0_rpi])
#define T0_RPUSH(v)    do { uint32_t t0v_ = (v); T0_RS[t0_rpi] = t0v_; t0_rpi ++; } while (0)
#define T0_RPUSHi(v)   do { int32_t t0v_ = (v); T0_RS[t0_rpi] = (uint32_t)t0v_; t0_rpi ++; } while (0)
#define T0_ROLL(x)     do { \
	uint32_t t0len = (uint32_t)(x); \
	uint32_t t0tmp = T0_DS[t0_dpi - 1 - t0len]; \
	uint32_t t0k; \
	for (t0k = t0len; t0k > 0; t0k --) T0_DS[t0_dpi - 1 - t0k] = T0_DS[t0_dpi - t0k]; \
	T0_DS[t0_dpi - 1] = t0tmp; \
} while (0)
#define T0_SWAP()      do { \
	uint32_t t0tmp = T0_DS[t0_dpi - 2]; \
	T0_DS[t0_dpi - 2] = T0_DS[t0_dpi - 1]; \
	T0_DS[t0_dpi - 1] = t0tmp; \
} while (0)
#define T0_ROT()       do { \
	uint32_t t0tmp = T0_DS[t0_dpi - 3]; \
	T0_DS[t0_dpi - 3] = T0_DS[t0_dpi - 2]; \
	T0_DS[t0_dpi - 2] = T0_DS[t0_dpi - 1]; \
	T0_DS[t0_dpi - 1] = t0tmp; \
} while (0)
#define T0_NROT()       do { \
	uint32_t t0tmp = T0_DS[t0_dpi - 1]; \
	T0_DS[t0_dpi - 1] = T0_DS[t0_dpi - 2]; \
	T0_DS[t0_dpi - 2] = T0_DS[t0_dpi - 3]; \
	T0_DS[t0_dpi - 3] = t0tmp; \
} while (0)
#define T0_PICK(x)      do { \
	uint32_t t0depth = (x); \
	T0_PUSH(T0_PEEK(t0depth)); \
} while (0)
static void t0_save(uint32_t ipn) {
	((t0_context *)t0ctx)->dp = &T0_DS[t0_dpi];
	((t0_context *)t0ctx)->rp = &T0_RS[t0_rpi];
	((t0_context *)t0ctx)->ip = &t0_codeblock[ipn];
}
#define T0_YIELD(ipn)  do { t0_save(ipn); t0_env_yield(CTX); } while (0)
''')
    o.append("""
static unsigned char *T0_ADDR(uint32_t addr) {
#define T0_FLD(f) if (addr >= offsetof(CONTEXT_NAME, f) && addr < offsetof(CONTEXT_NAME, f) + sizeof CTX->f) return &CTX->f[addr - offsetof(CONTEXT_NAME, f)];
	T0_FLD(key_data) T0_FLD(pad)
	return (unsigned char *)CTX + addr;
}
""")
    slot_of = {}
    for i, a in enumerate(caddr):
        slot_of.setdefault(a, i + interp)
    for s in starts:
        o.append('static void t0w_%d(uint32_t retip);\n' % s)
    for s in starts:
        p = s
        lnum, p = parse7E_u(code, p)
        e = ends[s]
        ins = []
        targets = set()
        while p < e:
            ip0 = p
            op = code[p]; p += 1
            if op == 0:
                ins.append((ip0, 'ret', None, p))
            elif op == 1:
                v, p = parse7E_s(code, p); ins.append((ip0, 'const', v, p))
            elif op == 2:
                v, p = parse7E_u(code, p); ins.append((ip0, 'getl', v, p))
            elif op == 3:
                v, p = parse7E_u(code, p); ins.append((ip0, 'putl', v, p))
            elif op in (4, 5, 6):
                v, p = parse7E_s(code, p)
                tgt = p + v
                targets.add(tgt)
                ins.append((ip0, ('jmp', 'jif', 'jifnot')[op-4], tgt, p))
            elif op < interp:
                ins.append((ip0, 'nat', op, p))
            else:
                ins.append((ip0, 'call', caddr[op - interp], p))
        ips = set(i[0] for i in ins)
        for t in targets:
            assert t in ips or t == e, (s, t)
        o.append('static void t0w_%d(uint32_t retip)\n{\n' % s)
        o.append('\tt0_rpi += %d; T0_RS[t0_rpi ++] = retip + ((uint32_t)%d << 16);\n' % (lnum, lnum))
        for (ip0, k, a, nx) in ins:
            if ip0 in targets:
                o.append('L_%d: ;\n' % ip0)
            if k == 'ret':
                o.append('\t{ uint32_t t0x = T0_RPOP(); t0_rpi -= (t0x >> 16); return; }\n')
            elif k == 'const':
                o.append('\tT0_PUSHi((int32_t)%d);\n' % a)
            elif k == 'getl':
                o.append('\tT0_PUSH(T0_LOCAL(%d));\n' % a)
            elif k == 'putl':
                o.append('\tT0_LOCAL(%d) = T0_POP();\n' % a)
            elif k == 'jmp':
                o.append('\tgoto L_%d;\n' % a)
            elif k == 'jif':
                o.append('\tif (T0_POP()) goto L_%d;\n' % a)
            elif k == 'jifnot':
                o.append('\tif (!T0_POP()) goto L_%d;\n' % a)
            elif k == 'nat':
                name, body = nat[a]; body = body.replace('(unsigned char *)CTX + addr', 'T0_ADDR(addr)')
                o.append('#undef T0_CO\n#undef T0_RET\n')
                o.append('#define T0_CO() do { T0_YIELD(%d); goto N_%d; } while (0)\n' % (nx, nx))
                o.append('#define T0_RET() goto N_%d\n' % nx)
                o.append('\t{ /* ip=%d native %d */\n%s\n\t}\n' % (ip0, a, body))
                o.append('N_%d: ;\n' % nx)
            elif k == 'call':
                o.append('\tt0w_%d(%d);\n' % (a, nx))
        if e in targets:
            o.append('L_%d: ;\n' % e)
        o.append('}\n\n')
    for name, slot in entries:
        a = caddr[int(slot) - interp]
        base = name[:-len('_init_main')]
        o.append('/* pull-mode driver: runs the coroutine to completion, pulling chunks from t0_env_yield */\n')
        o.append('void %s_spec_run(void *ctx)\n{\n' % base)
        o.append('\tt0ctx = ctx; t0_cc = (CONTEXT_NAME *)(void *)((unsigned char *)t0ctx - offsetof(CONTEXT_NAME, cpu));\n')
        o.append('\tt0_dpi = ((t0_context *)t0ctx)->dp - T0_DS; t0_rpi = ((t0_context *)t0ctx)->rp - T0_RS;\n')
        o.append('\tt0w_%d(0);\n' % a)
        o.append('\t((t0_context *)t0ctx)->dp = &T0_DS[t0_dpi]; ((t0_context *)t0ctx)->rp = &T0_RS[t0_rpi]; ((t0_context *)t0ctx)->ip = NULL;\n')
        o.append('}\n')
    open(out, 'w').write(''.join(o))
    print("words", len(starts), "natives", len(nat), "code bytes", len(code))

main()
