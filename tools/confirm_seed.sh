#!/bin/bash
# usage: confirm_seed.sh <seed_out_dir> <name>
# Confirms a candidate seeded change in a scratch worktree of /repo HEAD:
#  unchanged tree: builds, 53 OK, demo PASS(exit 0); changed tree: builds, 53 OK, demo FAIL(exit != 0).
set -u
OUT=$1; NAME=$2; WT=/tmp/confirm_$NAME
git -C /repo worktree remove --force $WT >/dev/null 2>&1
git -C /repo worktree add -q $WT HEAD || exit 9
cd $WT
make -j6 >/dev/null 2>&1; r0=$?
ok0=$(./build/testx509 2>&1 | grep -c "OK")
bash $OUT/run_demo.sh $WT > $OUT/confirm_unchanged.log 2>&1; d0=$?
git apply $OUT/patch.diff; ra=$?
make -j6 >/dev/null 2>&1; r1=$?
ok1=$(./build/testx509 2>&1 | grep -c "OK")
bash $OUT/run_demo.sh $WT > $OUT/confirm_changed.log 2>&1; d1=$?
echo "$NAME unchanged: make=$r0 testx509_OK=$ok0 demo_exit=$d0 | changed: apply=$ra make=$r1 testx509_OK=$ok1 demo_exit=$d1"
cd /; git -C /repo worktree remove --force $WT
