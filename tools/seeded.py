#!/usr/bin/env python3
"""Run the registered checks against every seeded change under /verif/seeded/<name>/.

For each seeded change: a scratch worktree of /repo HEAD is created outside
/repo and /verif, patch.diff is applied there, the quick check of the property
it breaks (meta.json: "property") is run with VERIF_REPO pointing at the
worktree, and the outcome (VIOLATION lines, failing queries) is written to
seeded/<name>/last_run.json.  The worktree is removed afterwards.
usage: tools/seeded.py [name ...] [--tier quick|thorough] [--also C05,C06]
"""
import sys, os, json, subprocess, shutil, re, time
ROOT = os.path.dirname(os.path.dirname(os.path.abspath(__file__)))
REPO = "/repo"

def sh(cmd, **kw):
    return subprocess.run(cmd, stdout=subprocess.PIPE, stderr=subprocess.STDOUT, text=True, **kw)

def main():
    args = sys.argv[1:]
    tier = "quick"; also = []
    names = []
    i = 0
    while i < len(args):
        if args[i] == "--tier": tier = args[i+1]; i += 2
        elif args[i] == "--also": also = args[i+1].split(","); i += 2
        else: names.append(args[i]); i += 1
    sd = os.path.join(ROOT, "seeded")
    if not names:
        names = sorted(d for d in os.listdir(sd) if os.path.isdir(os.path.join(sd, d)))
    summary = []
    for name in names:
        d = os.path.join(sd, name)
        meta = json.load(open(os.path.join(d, "meta.json")))
        wt = "/tmp/seedtest_" + name
        sh(["git", "-C", REPO, "worktree", "remove", "--force", wt])
        r = sh(["git", "-C", REPO, "worktree", "add", "-q", wt, "HEAD"])
        r = sh(["git", "-C", wt, "apply", os.path.join(d, "patch.diff")])
        if r.returncode != 0:
            print(name, "patch does not apply:", r.stdout[:300]); sh(["git", "-C", REPO, "worktree", "remove", "--force", wt]); continue
        res = {}
        for pid in [meta["property"]] + [p for p in also if p != meta["property"]]:
            env = dict(os.environ, VERIF_REPO=wt, VERIF_EVIDENCE_DIR="/tmp/seedtest_evidence", VERIF_BUILD="/tmp/seedtest_build_" + name)
            t0 = time.time()
            r = sh(["python3", os.path.join(ROOT, "verif.py"), "check", pid, "--tier", tier], env=env, cwd=ROOT)
            viol = [l for l in r.stdout.splitlines() if l.startswith("VIOLATION")]
            fails = re.findall(r"^\s+FAIL\s+(\S+)", r.stdout, re.M)
            asserts = sorted(set(re.findall(r"assertion=(.*?) \(", r.stdout)))
            res[pid] = {"exit": r.returncode, "violations": len(viol), "failing_queries": fails, "assertions": asserts[:12], "wall_s": round(time.time() - t0)}
            print("%-28s %s exit=%d violations=%d failing=%s" % (name, pid, r.returncode, len(viol), fails[:6]))
        json.dump({"tier": tier, "results": res, "repo_head": sh(["git", "-C", REPO, "rev-parse", "--short", "HEAD"]).stdout.strip()},
                  open(os.path.join(d, "last_run.json"), "w"), indent=1)
        sh(["git", "-C", REPO, "worktree", "remove", "--force", wt])
        shutil.rmtree("/tmp/seedtest_build_" + name, ignore_errors=True)
        shutil.rmtree(os.path.join(ROOT, "replays", meta["property"]), ignore_errors=True)
        summary.append((name, res))
    # restore evidence files of the unchanged tree is the caller's job (re-run the checks)
    return 0

if __name__ == "__main__":
    sys.exit(main())
