#!/bin/bash
# usage: run_some.sh <tier> <pid>...
TIER=$1; shift
cd "$(dirname "$0")/.."
for p in "$@"; do
  s=$(date +%s)
  python3 verif.py check $p --tier $TIER > /tmp/runsome_$p.log 2>&1; rc=$?
  echo "$p exit=$rc wall=$(( $(date +%s) - s ))s $(grep -E 'tier=' /tmp/runsome_$p.log | tail -1)"
  grep -E "^INCONCLUSIVE|^VIOLATION" /tmp/runsome_$p.log | cut -c1-200 | head -5
done
