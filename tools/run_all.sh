#!/bin/bash
# Runs the quick (or $1) tier of every check registered in MANIFEST.json against /repo, sequentially.
TIER=${1:-quick}
cd "$(dirname "$0")/.."
for p in $(python3 -c "import json;print(' '.join(c['property_id'] for c in json.load(open('MANIFEST.json'))['checks']))"); do
  s=$(date +%s)
  python3 verif.py check $p --tier $TIER > /tmp/runall_$p.log 2>&1; rc=$?
  echo "$p exit=$rc wall=$(( $(date +%s) - s ))s $(grep -E 'tier=' /tmp/runall_$p.log | tail -1)"
done
