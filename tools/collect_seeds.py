#!/usr/bin/env python3
"""usage: collect_seeds.py <prefix> <suffix>   e.g.  collect_seeds.py seedc c
For every /tmp/<prefix>_out_Cxx: confirm it with tools/confirm_seed.sh (4 at a time), and if confirmed
(unchanged: 53 OK + demo exit 0; changed: applies, builds, 53 OK, demo exit != 0) copy it to
/verif/seeded/Cxx<suffix>-<slug>/ with a meta.json; remove the scratch worktree /tmp/<prefix>_Cxx."""
import sys, os, re, glob, json, shutil, subprocess, time
ROOT = os.path.dirname(os.path.dirname(os.path.abspath(__file__)))
prefix, suffix = sys.argv[1], sys.argv[2]
outs = sorted(glob.glob("/tmp/%s_out_C*" % prefix))
procs = []
def launch(o):
    pid = o[-3:]
    log = "/tmp/confirm_%s_%s.txt" % (prefix, pid)
    return (pid, o, log, subprocess.Popen([os.path.join(ROOT, "tools", "confirm_seed.sh"), o, prefix + pid], stdout=open(log, "w"), stderr=subprocess.STDOUT))
queue = list(outs); running = []; done = []
while queue or running:
    while queue and len(running) < 4:
        o = queue.pop(0)
        if all(os.path.exists(os.path.join(o, f)) for f in ("patch.diff", "demo.c", "run_demo.sh")):
            running.append(launch(o))
        else:
            print(o, "incomplete deliverables")
    for r in list(running):
        if r[3].poll() is not None:
            running.remove(r); done.append(r)
    time.sleep(3)
for (pid, o, log, p) in done:
    conf = open(log).read().strip().splitlines()[-1] if os.path.getsize(log) else ""
    ok = ("unchanged: make=0 testx509_OK=53 demo_exit=0" in conf) and ("apply=0 make=0 testx509_OK=53" in conf) and not conf.rstrip().endswith("demo_exit=0")
    print(pid, "CONFIRMED" if ok else "NOT CONFIRMED", conf)
    if not ok:
        continue
    notes = open(os.path.join(o, "notes.txt")).read() if os.path.exists(os.path.join(o, "notes.txt")) else ""
    files = re.findall(r"^\+\+\+ b/(\S+)", open(os.path.join(o, "patch.diff")).read(), re.M)
    slug = re.sub(r"[^a-z0-9]+", "-", os.path.basename(files[0]).lower().rsplit(".", 1)[0])[:24] if files else "change"
    name = "%s%s-%s" % (pid, suffix, slug)
    d = os.path.join(ROOT, "seeded", name); os.makedirs(d, exist_ok=True)
    for f in ("patch.diff", "demo.c", "run_demo.sh", "notes.txt"):
        if os.path.exists(os.path.join(o, f)): shutil.copy(os.path.join(o, f), os.path.join(d, f))
    json.dump({"property": pid, "what": " ".join(notes.split())[:700], "files": files, "needs_to_manifest": "see notes.txt",
               "origin": "fresh sub-agent (round '%s', told the mechanisms already taken and asked for cooperating sites / rare configurations / port-specific code) given the property text and its own scratch worktree" % suffix,
               "confirmed_by_main_session": "tools/confirm_seed.sh in a fresh worktree of /repo HEAD: " + conf}, open(os.path.join(d, "meta.json"), "w"), indent=1)
    subprocess.run(["git", "-C", "/repo", "worktree", "remove", "--force", "/tmp/%s_%s" % (prefix, pid)])
    shutil.rmtree(o, ignore_errors=True)
    print("  ->", name)
subprocess.run(["git", "-C", "/repo", "worktree", "prune"])
